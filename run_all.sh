#!/bin/sh
# ./run_all.sh [quick|thorough] : every check, one after the other; prints one summary line per check.
tier=${1:-quick}
cd "$(dirname "$0")"
rc=0
for p in C01 C02 C03 C04 C05 C06 C07 C08 C09 C10 C11 C12 C13 C14 C15 C16 C17 C18 C19 C20; do
  start=$(date +%s)
  ./run.sh $p --tier $tier > out/$p.$tier.log 2>&1
  r=$?
  end=$(date +%s)
  echo "$p exit=$r $((end-start))s $(grep -c '^KNOWN-FINDING' out/$p.$tier.log) known $(grep -c '^VIOLATION' out/$p.$tier.log) violations | $(tail -1 out/$p.$tier.log | cut -c1-150)"
  [ $r -ne 0 ] && rc=1
done
exit $rc
