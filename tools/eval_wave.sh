#!/bin/sh
# tools/eval_wave.sh <dir with Cxx/patch.diff> <id prefix, e.g. seed4> [properties...]: evaluate a wave of seeded changes
cd "$(dirname "$0")/.."
dir=$1; pfx=$2; shift 2
for p in ${@:-C13 C12 C19 C16 C20 C05 C04 C15 C10 C18 C06 C07 C14 C03 C09 C11 C08 C17 C02 C01}; do
  [ -f $dir/$p/patch.diff ] && .venv/bin/python tools/eval_seed.py $dir/$p $pfx-$p $p
done
