#!/usr/bin/env python
"""tools/import_notes.py <wave dir> <id prefix>: merge the seeding agents' notes.json (change / needs) into seeded/descriptions.json."""
import json, os, sys

wave, pfx = sys.argv[1:3]
verif = os.path.dirname(os.path.dirname(os.path.abspath(__file__)))
f = os.path.join(verif, "seeded", "descriptions.json")
d = json.load(open(f))
for p in sorted(os.listdir(wave)):
    n = os.path.join(wave, p, "notes.json")
    if os.path.exists(n):
        try:
            x = json.load(open(n))
        except Exception as e:  # noqa: BLE001
            print("bad notes", p, e)
            continue
        d[f"{pfx}-{p}"] = {"change": x.get("change"), "needs": x.get("needs")}
        if x.get("preexisting"):
            print(p, "PREEXISTING:", str(x["preexisting"])[:600])
json.dump(d, open(f, "w"), indent=1)
