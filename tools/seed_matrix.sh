#!/bin/sh
# Cross-evaluation: which other checks also catch each independently seeded change (development aid).
cd "$(dirname "$0")/.."
run() { id=$1; shift; prop=$1; shift; ONLY_MORE=1 .venv/bin/python tools/eval_seed.py seeded/seed-$id seed-$id $prop "$@"; }
run C01 C01 C06 C16 C07
run C02 C02 C17 C08
run C03 C03 C04
run C04 C04 C03
run C05 C05 C01 C06
run C06 C06 C01 C16
run C07 C07 C10
run C08 C08 C02 C11 C17
run C09 C09 C02
run C10 C10 C18 C01
run C11 C11 C02 C05
run C12 C12 C02
run C13 C13 C05 C12
run C14 C14 C20
run C15 C15 C03
run C17 C17 C02 C11 C08
run C18 C18 C01
run C20 C20 C14 C03
run2() { id=$1; shift; prop=$1; shift; ONLY_MORE=1 .venv/bin/python tools/eval_seed.py seeded/seed2-$id seed2-$id $prop "$@"; }
run2 C01 C01 C09 C18
run2 C02 C02 C17 C05
run2 C03 C03 C04
run2 C04 C04 C03
run2 C05 C05 C01 C11
run2 C06 C06 C16
run2 C07 C07 C06
run2 C08 C08 C01 C10 C18
run2 C09 C09 C01
run2 C10 C10 C18 C08
run2 C11 C11 C02 C05
run2 C12 C12 C01 C13
run2 C13 C13 C16 C05
run2 C14 C14 C20 C03
run2 C15 C15 C09
run2 C16 C16 C13
run2 C17 C17 C02
run2 C18 C18 C10 C08
run2 C20 C20 C14
