#!/bin/sh
# Runs every thorough tier once (development aid; long).  Usage: tools/thorough_all.sh [checks...]
cd "$(dirname "$0")/.."
mkdir -p out
for p in ${@:-C19 C13 C12 C04 C05 C15 C10 C16 C20 C18 C06 C14 C03 C09 C07 C08 C11 C17 C02 C01}; do
  s=$(date +%s)
  ./run.sh $p --tier thorough > out/$p.thorough.log 2>&1
  r=$?
  e=$(date +%s)
  echo "$p exit=$r $((e-s))s | $(grep -c '^KNOWN' out/$p.thorough.log) known $(grep -c '^VIOLATION' out/$p.thorough.log) vio | $(tail -1 out/$p.thorough.log | cut -c1-170)"
done
