#!/usr/bin/env python
"""Development-time sensitivity test: apply small hand mutations (DESIGN Appendix B) to a scratch copy of /repo,
check that the existing test-suite still passes, run the relevant checks against the scratch copy (VERIF_REPO)
and report which mutants are flagged.  Nothing here is registered in MANIFEST.json.

usage: tools/mutants.py [ids...]        (scratch copies live under /tmp and are removed afterwards)
"""
import json, os, shutil, subprocess, sys, tempfile

R = "python/lsst/daf/relation/"
M = [
    # id, property, file, old, new
    ("c01-groups", "C01", R + "iteration/_engine.py", "for ascending, callables in grouped_by_ascending[::-1]:", "for ascending, callables in grouped_by_ascending:"),
    ("c01-reverse", "C01", R + "iteration/_engine.py", "reverse=not ascending,", "reverse=ascending,"),
    ("c01-slice", "C01", R + "iteration/_row_iterable.py", "if n >= self.start:", "if n > self.start:"),
    ("c01-tomapping", "C01", R + "iteration/_row_iterable.py", "        if unique_key == self.unique_key:\n            return self", "        if True:\n            return self"),
    ("c02-sel-slice", "C02", R + "sql/_engine.py", "            case Selection():\n                if select.has_slice:", "            case Selection():\n                if False and select.has_slice:"),
    ("c02-dedup-slice", "C02", R + "sql/_engine.py", "                if not select.has_deduplication:\n                    if select.has_slice:", "                if not select.has_deduplication:\n                    if False and select.has_slice:"),
    ("c02-join-merge", "C02", R + "sql/_engine.py", "columns_available = {**lhs_payload.columns_available, **rhs_payload.columns_available}", "columns_available = {**rhs_payload.columns_available, **lhs_payload.columns_available}"),
    ("c02-union", "C02", R + "sql/_engine.py", "                if select.has_deduplication:\n                    executable = sqlalchemy.sql.union(lhs_executable, rhs_executable)\n                else:\n                    executable = sqlalchemy.sql.union_all(lhs_executable, rhs_executable)", "                if not select.has_deduplication:\n                    executable = sqlalchemy.sql.union(lhs_executable, rhs_executable)\n                else:\n                    executable = sqlalchemy.sql.union_all(lhs_executable, rhs_executable)"),
    ("c03-done", "C03", R + "iteration/_engine.py", "done and commutator.done,", "done,"),
    ("c03-drop", "C03", R + "iteration/_engine.py", "                    if upstream is not target:\n                        result = commutator.second._finish_apply(upstream)", "                    if upstream is not target:\n                        result = upstream"),
    ("c04-sel-count", "C04", R + "_operations/_selection.py", "        if current.operation.is_count_dependent:", "        if False and current.operation.is_count_dependent:"),
    ("c04-slice-sel", "C04", R + "_operations/_slice.py", "            case Projection() | Calculation():\n                return UnaryCommutator(first=self, second=current.operation)", "            case Projection() | Calculation() | Selection():\n                return UnaryCommutator(first=self, second=current.operation)"),
    ("c04-calc-proj", "C04", R + "_operations/_calculation.py", "Projection(current.operation.columns | {self.tag})", "Projection(current.operation.columns)"),
    ("c05-then-stop", "C05", R + "_operations/_slice.py", "new_stop = min(self.stop, next.stop + self.start)", "new_stop = min(self.stop, next.stop)"),
    ("c05-then-max", "C05", R + "_operations/_slice.py", "new_stop = min(self.stop, next.stop + self.start)", "new_stop = max(self.stop, next.stop + self.start)"),
    ("c05-sort-then", "C05", R + "_operations/_sort.py", "        new_terms = list(next.terms)\n        for term in self.terms:", "        new_terms = list(self.terms)\n        for term in next.terms:"),
    ("c05-sel-simplify", "C05", R + "_operations/_selection.py", "return Selection(predicate=other_predicate.logical_and(self.predicate))", "return Selection(predicate=self.predicate)"),
    ("c06-slice-min", "C06", R + "_operations/_slice.py", "            stop = min(self.stop, target.min_rows)\n        else:\n            stop = target.min_rows", "            stop = min(self.stop, target.max_rows or 0)\n        else:\n            stop = target.min_rows"),
    ("c06-dedup-min", "C06", R + "_operations/_deduplication.py", "return 1 if target.min_rows >= 1 else 0", "return target.min_rows"),
    ("c06-chain-max", "C06", R + "_operations/_chain.py", "else lhs.max_rows + rhs.max_rows", "else max(lhs.max_rows, rhs.max_rows)"),
    ("c06-join-max", "C06", R + "_operations/_join.py", "            return lhs.max_rows * rhs.max_rows", "            return lhs.max_rows + rhs.max_rows"),
    ("c07-prune", "C07", R + "_processor.py", "                    if new_lhs.max_rows == 0:\n                        return new_rhs, rhs_persisted", "                    if new_lhs.min_rows == 0:\n                        return new_rhs, rhs_persisted"),
    ("c07-attach-original", "C07", R + "_processor.py", "                result = original.reapply(new_target, payload)\n                return result, materialize_as is not None", "                result = original.reapply(new_target, payload)\n                if original.payload is None:\n                    original.attach_payload(payload)\n                return result, materialize_as is not None"),
    ("c07-identity", "C07", R + "_processor.py", "                if original.is_join_identity:\n                    payload = destination.get_join_identity_payload()\n                    new_target = target\n                elif", "                if False:\n                    payload = destination.get_join_identity_payload()\n                    new_target = target\n                elif"),
    ("c08-strip", "C08", R + "sql/_select.py", "if not self.has_deduplication and not self.has_sort and not self.has_slice:\n            return self.skip_to", "if not self.has_deduplication and not self.has_sort:\n            return self.skip_to"),
    ("c09-copy", "C09", R + "sql/_engine.py", "                    case Selection(predicate=predicate):\n                        result = self.to_payload(target).copy()", "                    case Selection(predicate=predicate):\n                        result = self.to_payload(target)"),
    ("c09-name-compare", "C09", R + "_leaf_relation.py", "name: str = dataclasses.field(repr=True, compare=True, default=\"\")", "name: str = dataclasses.field(repr=True, compare=False, default=\"\")"),
    ("c10-attach", "C10", R + "_marker_relation.py", "        if self.payload is None:\n            object.__setattr__", "        if True:\n            object.__setattr__"),
    ("c11-limit", "C11", R + "sql/_engine.py", "            executable = executable.limit(select.slice.limit)", "            executable = executable.limit(select.slice.stop)"),
    ("c11-mat-guard", "C11", R + "sql/_engine.py", "        if conformed_target.has_sort and not conformed_target.has_slice:\n            raise RelationalAlgebraError(\n                f\"Materializing", "        if False:\n            raise RelationalAlgebraError(\n                f\"Materializing"),
    ("c12-stop", "C12", R + "sql/_engine.py", "stop_inclusive = stop_exclusive - 1", "stop_inclusive = stop_exclusive"),
    ("c12-empty-or", "C12", R + "sql/_engine.py", "            case LogicalOr(operands=operands):\n                if not operands:\n                    return sqlalchemy.sql.literal(False)", "            case LogicalOr(operands=operands):\n                if not operands:\n                    return sqlalchemy.sql.literal(True)"),
    ("c12-any-all", "C12", R + "iteration/_engine.py", "return lambda row: any(c(row) for c in operand_callables)", "return lambda row: all(c(row) for c in operand_callables)"),
    ("c13-flatten", "C13", R + "_columns/_predicate.py", "            if value:\n                return []\n            else:\n                return False", "            if value:\n                return []\n            else:\n                return []"),
    ("c13-not-cols", "C13", R + "_columns/_predicate.py", "    def columns_required(self) -> Set[ColumnTag]:\n        # Docstring inherited.\n        return self.operand.columns_required", "    def columns_required(self) -> Set[ColumnTag]:\n        # Docstring inherited.\n        return frozenset()"),
    ("c14-supported", "C14", R + "_unary_operation.py", "        if not self.is_supported_by(target.engine):", "        if False and not self.is_supported_by(target.engine):"),
    ("c14-join-engine", "C14", R + "_operations/_join.py", "        if lhs.engine != rhs.engine:\n            raise EngineError(f\"Mismatched join engines", "        if False:\n            raise EngineError(f\"Mismatched join engines"),
    ("c14-transfer-self", "C14", R + "_engine.py", "        if target.engine == self:\n            if payload is not None:", "        if False and target.engine == self:\n            if payload is not None:"),
    ("c15-locked", "C15", R + "_transfer.py", "        if target.is_locked:\n            return None", "        if False:\n            return None"),
    ("c15-backtrack-locked", "C15", R + "iteration/_engine.py", "        if tree.is_locked:\n            return tree, False", "        if False:\n            return tree, False"),
    ("c15-mat-simplify", "C15", R + "_materialization.py", "            case Materialization():\n                return True", "            case Materialization():\n                return False"),
    ("c16-chain", "C16", R + "_diagnostics.py", "return cls(lhs_result.is_doomed and rhs_result.is_doomed, messages)", "return cls(lhs_result.is_doomed or rhs_result.is_doomed, messages)"),
    ("c16-join", "C16", R + "_diagnostics.py", "                        if lhs_result.is_doomed or rhs_result.is_doomed:", "                        if lhs_result.is_doomed and rhs_result.is_doomed:"),
    ("c16-sort-flag", "C16", R + "_operations/_deduplication.py", "    def is_empty_invariant(self) -> Literal[True]:\n        # Docstring inherited.\n        return True", "    def is_empty_invariant(self) -> Literal[True]:\n        # Docstring inherited.\n        return False"),
    ("c17-compound", "C17", R + "sql/_select.py", "        match skip_to:\n            case BinaryOperationRelation(operation=Chain()):\n                is_compound = True", "        match target:\n            case BinaryOperationRelation(operation=Chain()):\n                is_compound = True"),
    ("c17-rebuild", "C17", R + "sql/_select.py", "        if kwargs or skip_to is not self.skip_to:", "        if True:"),
    ("c18-calc-list", "C18", R + "iteration/_row_iterable.py", "return ({**row, self.tag: self.callable(row)} for row in self.target)", "return iter([{**row, self.tag: self.callable(row)} for row in list(self.target)] if list(self.target) is not None else [])"),
    ("c18-chain-twice", "C18", R + "iteration/_row_iterable.py", "return itertools.chain.from_iterable(self.chain)", "return itertools.chain.from_iterable([list(c) for c in self.chain])"),
    ("c19-no-uuid", "C19", R + "_engine.py", "name = f\"{prefix}_{self.relation_name_counter:04d}_{uuid.uuid4().hex}\"", "name = f\"{prefix}_{self.relation_name_counter:04d}\""),
    ("c20-existing-tag", "C20", R + "_operations/_calculation.py", "        if self.tag in target.columns:\n            raise ColumnError", "        if False:\n            raise ColumnError"),
    ("c20-step", "C20", R + "_relation.py", "        if key.step not in (1, None):", "        if False:"),
    ("c20-chain-cols", "C20", R + "_operations/_chain.py", "        if lhs.columns != rhs.columns:", "        if False:"),
]


def sh(cmd, **kw):
    return subprocess.run(cmd, shell=True, capture_output=True, text=True, **kw)


def main():
    want = set(sys.argv[1:])
    verif = os.path.dirname(os.path.dirname(os.path.abspath(__file__)))
    results = []
    for mid, prop, path, old, new in M:
        if want and mid not in want and prop not in want:
            continue
        d = tempfile.mkdtemp(prefix="mut_", dir="/tmp")
        try:
            sh(f"cp -r /repo/python /repo/tests /repo/setup.cfg /repo/pyproject.toml {d}/ 2>/dev/null")
            f = os.path.join(d, path)
            s = open(f).read()
            if old not in s:
                results.append((mid, prop, "PATTERN-NOT-FOUND", ""))
                continue
            open(f, "w").write(s.replace(old, new, 1))
            t = sh(f"cd {d} && PYTHONPATH={d}/python /venv/bin/python -m pytest -q -p no:cacheprovider tests 2>&1 | tail -1")
            tests_ok = " failed" not in t.stdout and "error" not in t.stdout.lower()
            c = sh(f"cd {verif} && VERIF_REPO={d} ./run.sh {prop} --tier quick 2>&1 | grep -E '^(VIOLATION|HARNESS|KNOWN)' | head -3")
            caught = "VIOLATION" in c.stdout
            results.append((mid, prop, ("caught" if caught else "MISSED") + ("" if tests_ok else " (tests fail too)"),
                            c.stdout.strip().split("\n")[0][:120] + (" | HARNESS-ERROR" if "HARNESS" in c.stdout else "")))
        finally:
            shutil.rmtree(d, ignore_errors=True)
        print(*results[-1], flush=True)
    missed = [r for r in results if r[2].startswith("MISSED")]
    print(f"{len(results)} mutants, {len(missed)} missed: {[r[0] for r in missed]}")


if __name__ == "__main__":
    main()
