#!/bin/sh
# tools/regress_seeds.sh [id-prefix...]: re-run every kept seeded change (seeded/<id>/patch.diff) against the check of its property
# on a scratch copy of the *current* /repo; prints one CAUGHT / MISSED line per change (meta.json is refreshed).
cd "$(dirname "$0")/.."
for d in seeded/${1:-seed}*-C*/; do
  id=$(basename $d); p=${id##*-}
  .venv/bin/python tools/eval_seed.py $d $id $p 2>&1 | grep -v "^{" | cut -c1-160 | sed "s/^/$id/"
done
