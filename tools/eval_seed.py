#!/usr/bin/env python
"""Confirm a seeded change (patch.diff + demo.py in a directory) in a scratch copy of /repo and run checks against it.

usage: tools/eval_seed.py <dir with patch.diff and demo.py> <seed id> <property> [more properties to run...]
Writes /verif/seeded/<seed id>/{patch.diff,demo.py,meta.json}.  The scratch copy lives under /tmp and is removed."""
import json, os, shutil, subprocess, sys, tempfile, time


def sh(cmd):
    return subprocess.run(cmd, shell=True, capture_output=True, text=True)


def main():
    src, sid, prop, *more = sys.argv[1:]
    src = os.path.abspath(src)
    verif = os.path.dirname(os.path.dirname(os.path.abspath(__file__)))
    d = tempfile.mkdtemp(prefix="seed_", dir="/tmp")
    meta = {"id": sid, "breaks_property": prop, "source_dir": src}
    try:
        sh(f"cp -r /repo/python /repo/tests /repo/setup.cfg /repo/pyproject.toml {d}/ 2>/dev/null")
        shutil.copy(os.path.join(src, "demo.py"), d)
        base = sh(f"cd {d} && PYTHONPATH={d}/python /venv/bin/python demo.py")
        meta["demo_without_change_exit"] = base.returncode
        a = sh(f"cd {d} && patch -p1 < {src}/patch.diff")
        meta["patch_applies"] = a.returncode == 0
        if a.returncode:
            meta["patch_output"] = a.stdout[-300:] + a.stderr[-300:]
        t = sh(f"cd {d} && PYTHONPATH={d}/python /venv/bin/python -m pytest -q -p no:cacheprovider tests 2>&1 | tail -1")
        meta["tests_with_change"] = t.stdout.strip()
        dm = sh(f"cd {d} && PYTHONPATH={d}/python /venv/bin/python demo.py")
        meta["demo_with_change_exit"] = dm.returncode
        meta["demo_with_change_tail"] = (dm.stdout + dm.stderr)[-400:]
        meta["confirmed"] = bool(meta["patch_applies"] and "82 passed" in meta["tests_with_change"] and dm.returncode != 0
                                 and base.returncode == 0)
        meta["checks"] = {}
        old = os.path.join(verif, "seeded", sid, "meta.json")
        if os.path.exists(old):
            try:
                meta["checks"] = json.load(open(old)).get("checks", {})
            except Exception:
                pass
        for p in ([prop] + more) if not os.environ.get("ONLY_MORE") else more:
            t0 = time.time()
            c = sh(f"cd {verif} && VERIF_REPO={d} ./run.sh {p} --tier quick 2>&1")
            lines = [l for l in c.stdout.split("\n") if l.startswith(("VIOLATION", "HARNESS", "KNOWN", "  site", "  what"))]
            meta["checks"][p] = {"exit": c.returncode, "caught": "VIOLATION" in c.stdout, "harness_error": "HARNESS-ERROR" in c.stdout,
                                 "first_lines": [l[:300] for l in lines[:4]], "wall_s": round(time.time() - t0, 1)}
        out = os.path.join(verif, "seeded", sid)
        os.makedirs(out, exist_ok=True)
        if os.path.realpath(src) != os.path.realpath(out):
            shutil.copy(os.path.join(src, "patch.diff"), out)
            shutil.copy(os.path.join(src, "demo.py"), out)
        descf = os.path.join(verif, "seeded", "descriptions.json")
        if os.path.exists(descf):
            dsc = json.load(open(descf)).get(sid, {})
            meta["change"] = dsc.get("change")
            meta["needs_to_manifest"] = dsc.get("needs")
        meta["ran"] = f"tools/eval_seed.py {src} {sid} {prop} {' '.join(more)}: scratch copy of /repo, patch -p1, pytest, demo.py with/without change, ./run.sh <prop> --tier quick with VERIF_REPO=<scratch>"
        json.dump(meta, open(os.path.join(out, "meta.json"), "w"), indent=1)
        print(json.dumps({k: meta[k] for k in ("id", "confirmed", "tests_with_change", "demo_without_change_exit", "demo_with_change_exit")}))
        for p, r in meta["checks"].items():
            print(" ", p, "CAUGHT" if r["caught"] else "MISSED", "(harness error)" if r["harness_error"] else "", r["wall_s"], "s", r["first_lines"][:3])
    finally:
        shutil.rmtree(d, ignore_errors=True)


if __name__ == "__main__":
    main()
