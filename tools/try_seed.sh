#!/bin/sh
# tools/try_seed.sh <dir with patch.diff> <property> [tier]: run one check against a scratch copy of /repo with the patch applied
d=$(mktemp -d /tmp/try_XXXXXX); cp -r /repo/python $d/; (cd $d && patch -p1 -s < $1/patch.diff) || echo "PATCH FAILED"
cd "$(dirname "$0")/.."; VERIF_REPO=$d ./run.sh $2 --tier ${3:-quick} 2>&1 | grep -E "VIOLATION|site:|HARN|quick\]|thorough\]" | head -${N:-5} | cut -c1-260
rm -rf $d
