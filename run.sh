#!/bin/sh
# ./run.sh <Cxx> [--tier quick|thorough] [--replay file]
# Runs one check against /repo's current working tree (imported from /repo/python, no cache).
cd "$(dirname "$0")"
./setup.sh >/dev/null 2>&1 || { ./setup.sh; echo "HARNESS-ERROR setup failed"; exit 2; }
REPO_DIR=${VERIF_REPO:-/repo}
export VERIF_REPO=$REPO_DIR
export PYTHONPATH=$REPO_DIR/python:$(pwd)
export PYTHONHASHSEED=0
export PYTHONDONTWRITEBYTECODE=1
export LSST_DAF_RELATION_VERIF=1
exec .venv/bin/python -u -m vf.driver "$@"
