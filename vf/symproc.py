"""Symbolic database + a Processor subclass whose hooks evaluate for real (C07, C10, C09)."""
from __future__ import annotations

import z3

from . import relmodel, sqlmodel
from .relmodel import Slot, Tab
from .symx import SymBool, SymInt, zint


def take(iterable, limit=200):
    from .common import take as _take
    return _take(iterable, limit)


class SymDB:
    """table name -> Tab (unordered); CREATE TABLE AS = bind a new name."""

    def __init__(self, env):
        import sqlalchemy as sa

        self.env = env
        self.tables = env.tables  # shared with the oracle leaf tables
        if env.metadata is None:
            env.metadata = sa.MetaData()
        self.created = []

    def table_payload(self, name, tags, tab):
        import sqlalchemy as sa
        from lsst.daf.relation import sql

        tags = list(tags)
        base = name
        k = 0
        while name in self.env.metadata.tables:
            k += 1
            name = f"{base}_{k}"
        ca = {t: sa.Column(t.qualified_name, sa.Integer) for t in tags}
        if not ca:
            extra = [sa.Column("IGNORED", sa.Integer)]
        else:
            extra = []
        tbl = sa.Table(name, self.env.metadata, *ca.values(), *extra)
        self.tables[name] = tab
        self.created.append(name)
        return sql.Payload(from_clause=tbl, columns_available=ca)

    def run(self, executable):
        from .sqlprogs import strip_ignored

        return strip_ignored(sqlmodel.select(executable, self.tables))


def bridge(tab, tags):
    """Symbolic table -> Python list of rows (dict Tag -> SymInt) by forking on presence and, for ordered
    results, on position comparisons.  Ground tables (concrete replays) give ordinary ints."""
    present = []
    ground = True
    for s in tab.slots:
        p = z3.simplify(s.p)
        if z3.is_true(p):
            present.append(s)
        elif z3.is_false(p):
            continue
        else:
            ground = False
            if SymBool(p):
                present.append(s)

    def val(t):
        t = z3.simplify(t)
        return t.as_long() if (ground and z3.is_int_value(t)) else SymInt(t)

    if tab.ordered:
        present.sort(key=lambda s: val(s.pos))
    return [{t: val(s.v[t.qualified_name]) for t in tags} for s in present]


def rows_to_tab(rows, tags):
    """Python rows (dict Tag -> SymInt/int) -> unordered Tab keyed by column name."""
    cols = [t.qualified_name for t in tags]
    return Tab([Slot(z3.BoolVal(True), None, {t.qualified_name: zint(r[t]) for t in tags}) for r in rows], cols, False)


def make_processor(db, log, lazy=False):
    from lsst.daf.relation import Processor, iteration, sql

    class EvaluatingProcessor(Processor):
        def transfer(self, source, destination, materialize_as):
            log.append(("transfer", source, destination, materialize_as))
            if isinstance(source.engine, sql.Engine):
                tab = db.run(source.engine.to_executable(source))
                rows = bridge(tab, list(source.columns))
            elif lazy and materialize_as is None and not isinstance(destination, sql.Engine):
                # "appropriate for caching" is only asked of the payload when a materialization follows: hand out the lazy iterable
                return source.engine.execute(source)
            else:
                rows = [dict(r) for r in take(source.engine.execute(source))]
            if isinstance(destination, sql.Engine):
                name = materialize_as or destination.get_relation_name("tmp")
                return db.table_payload(name, list(source.columns), rows_to_tab(rows, list(source.columns)))
            return iteration.RowSequence(rows)

        def materialize(self, target, name):
            log.append(("materialize", target, name))
            if isinstance(target.engine, iteration.Engine):
                return target.engine.execute(target).materialized()
            tab = db.run(target.engine.to_executable(target))
            return db.table_payload(name, list(target.columns), relmodel.unordered(tab))

    return EvaluatingProcessor()


def evaluate(rel, db):
    """Rows of a processed relation in its own engine: list of dicts (iteration) or Tab (SQL)."""
    from lsst.daf.relation import sql

    if isinstance(rel.engine, sql.Engine):
        return db.run(rel.engine.to_executable(rel))
    return [dict(r) for r in take(rel.engine.execute(rel))]
