"""Solver-based checking of lsst/daf_relation (see /verif/DESIGN.md)."""
