"""Helpers shared by the checks: symbolic leaves registered with the executor, model -> concrete
rows, counterexample minimisation, canonical multiset form."""
from __future__ import annotations

import z3

from . import relmodel
from .prog import UNARY


def register_table(ctx, tab):
    for s in tab.slots:
        for t in [s.p, s.pos] + list(s.v.values()):
            if t is not None and z3.is_const(t) and t.decl().kind() == z3.Z3_OP_UNINTERPRETED:
                ctx.vars[t.decl().name()] = t


def sym_table(ctx, name, cols, n, ordered=True, perm=False):
    tab, cons = relmodel.leaf_symbolic(name, cols, n, ordered=ordered, perm=perm)
    register_table(ctx, tab)
    for c in cons:
        ctx.assume(c)
    return tab


def rows_from_model(model, name, cols, n, perm=False):
    """Concrete rows of leaf `name` (present slots, in position order) from a model dict."""
    rows = []
    for i in range(n):
        if not model.get(f"{name}.p{i}", False):
            continue
        pos = model.get(f"{name}.pos{i}", i) if perm else i
        rows.append((pos, {c: int(model.get(f"{name}.{c}{i}", 0)) for c in cols}))
    rows.sort(key=lambda x: x[0])
    return [r for _, r in rows]


def canon(rows):
    """Canonical form of a multiset of rows."""
    return sorted(tuple(sorted(r.items())) for r in rows)


def drop_candidates(node):
    """All programs obtained by removing one unary step (replacing a node by its child)."""
    out = []
    op = node[0]
    if op == "leaf":
        return out
    if op in UNARY:
        out.append(node[1])
        for c in drop_candidates(node[1]):
            out.append((op, c) + tuple(node[2:]))
    else:  # binary: either operand alone, then reductions inside the operands
        out.append(node[1])
        out.append(node[2])
        for c in drop_candidates(node[1]):
            out.append((op, c, node[2]) + tuple(node[3:]))
        for c in drop_candidates(node[2]):
            out.append((op, node[1], c) + tuple(node[3:]))
    return out


def minimise(node, fails, limit=200):
    """Greedily drop operations while `fails(program)` stays true (concrete replay)."""
    n = 0
    changed = True
    while changed and n < limit:
        changed = False
        for cand in drop_candidates(node):
            n += 1
            try:
                ok = fails(cand)
            except Exception:  # noqa: BLE001 - ill-typed candidate etc.
                ok = False
            if ok:
                node = cand
                changed = True
                break
    return node


def exc_class(e):
    return type(e).__name__


class Runaway(Exception):
    """An iterable handed out by the library yields more rows than any tree over the harness' leaves can have."""


def take(iterable, limit=200):
    """list(iterable), but a result that does not end (a self-referential iterable, say) is reported instead of hanging the check."""
    out = []
    for r in iterable:
        out.append(r)
        if len(out) > limit:
            raise Runaway(f"more than {limit} rows")
    return out
