"""sqlmodel - SMT semantics of the SQLAlchemy ASTs the real sql.Engine emits.  DESIGN.md 2.4.

An environment stub (the database): SQL restricted to NULL-free integers, bag semantics,
booleans as 0/1, `%` truncating toward zero (SQLite / PostgreSQL), DISTINCT before ORDER BY
before OFFSET/LIMIT.  Anything not covered raises OutsideModel.  Also: a SQLite runner used to
validate the model and to replay counterexamples.
"""
from __future__ import annotations

import z3
from sqlalchemy.sql import elements, operators, selectable
import sqlalchemy as sa

from .relmodel import Slot, Tab, b2i, veq, zand, zor, zsum
from .symx import SymBool, SymInt


class OutsideModel(Exception):
    pass


class SqlInvalid(Exception):
    """The statement is not executable SQL (unresolvable / ambiguous column, arity mismatch)."""


NULL = z3.Int("sql.NULL")


def _is_blank(e):
    """A boolean clause list that renders as nothing: no clauses, or only blank ones."""
    from sqlalchemy.sql import elements

    while isinstance(e, elements.Grouping):
        e = e.element
    return isinstance(e, elements.BooleanClauseList) and all(_is_blank(c) for c in e.clauses)


def _val(x):
    if isinstance(x, SymInt):
        return x.t
    if isinstance(x, SymBool):
        return x.t
    if isinstance(x, bool):
        return z3.BoolVal(x)
    if isinstance(x, int):
        return z3.IntVal(x)
    if x is None:
        return NULL
    raise OutsideModel(f"bind value {x!r}")


def sqlmod(a, b):
    absb = z3.If(b >= 0, b, -b)
    return z3.If(a >= 0, a % absb, -((-a) % absb))


def as_bool(t):
    return t if z3.is_bool(t) else t != 0


def as_int(t):
    return z3.If(t, 1, 0) if z3.is_bool(t) else t


class Scope:
    """(id(from object), column name) -> z3 term for one joined row, plus by-name index to
    detect ambiguity."""

    def __init__(self):
        self.m = {}
        self.out = {}  # output column name -> term (what ORDER BY label references resolve to)

    def merged(self, other):
        s = Scope()
        s.m = {**self.m, **other.m}
        s.out = {**self.out, **other.out}
        return s


_CMP = {
    operators.eq: lambda l, r: l == r, operators.ne: lambda l, r: l != r, operators.lt: lambda l, r: l < r,
    operators.le: lambda l, r: l <= r, operators.gt: lambda l, r: l > r, operators.ge: lambda l, r: l >= r,
}
_ARITH = {
    operators.add: lambda l, r: l + r, operators.sub: lambda l, r: l - r, operators.mul: lambda l, r: l * r,
    operators.mod: sqlmod,
}


def expr(e, sc):
    if isinstance(e, elements.Label):
        return expr(e.element, sc)
    if isinstance(e, elements.Grouping):
        return expr(e.element, sc)
    if isinstance(e, elements._label_reference):
        name = getattr(e.element, "name", None)
        if isinstance(e.element, elements.Label) and name in sc.out:
            return sc.out[name]
        return expr(e.element, sc)
    if isinstance(e, elements.BindParameter):
        return _val(e.value)
    if isinstance(e, elements.True_):
        return z3.BoolVal(True)
    if isinstance(e, elements.False_):
        return z3.BoolVal(False)
    if isinstance(e, elements.Null):
        return NULL
    if isinstance(e, elements.ColumnClause):  # includes sa.Column
        key = (id(e.table), e.name)
        if key not in sc.m:
            raise SqlInvalid(f"no such column: {getattr(e.table, 'name', e.table)}.{e.name}")
        return sc.m[key]
    if isinstance(e, elements.BooleanClauseList):
        # SQLAlchemy renders a clause list without clauses as nothing, and drops such blanks from an enclosing AND / OR (a
        # blank that is the whole WHERE term means "no condition")
        parts = [as_bool(expr(c, sc)) for c in e.clauses if not _is_blank(c)]
        if not parts:
            return z3.BoolVal(True)
        if e.operator is operators.and_:
            return zand(parts)
        if e.operator is operators.or_:
            return zor(parts)
        raise OutsideModel(str(e.operator))
    if isinstance(e, elements.ExpressionClauseList):
        xs = [as_int(expr(c, sc)) for c in e.clauses]
        f = _ARITH.get(e.operator)
        if f is None:
            raise OutsideModel(f"clause list {e.operator}")
        r = xs[0]
        for x in xs[1:]:
            r = f(r, x)
        return r
    if isinstance(e, elements.UnaryExpression):
        if e.operator is operators.neg:
            return -as_int(expr(e.element, sc))
        if e.operator is operators.inv:
            if _is_blank(e.element):
                raise SqlInvalid("NOT applied to an empty clause list renders as 'NOT ' (not executable)")
            return z3.Not(as_bool(expr(e.element, sc)))
        if e.operator is operators.is_true:
            return as_bool(expr(e.element, sc))
        if e.operator is operators.is_false:
            return z3.Not(as_bool(expr(e.element, sc)))
        raise OutsideModel(f"unary {e.operator} {e.modifier}")
    if isinstance(e, elements.BinaryExpression):
        op = e.operator
        if op in (operators.in_op, operators.not_in_op):
            l = as_int(expr(e.left, sc))
            r = e.right
            while isinstance(r, elements.Grouping):
                r = r.element
            if isinstance(r, elements.ClauseList):
                items = [as_int(expr(c, sc)) for c in r.clauses]
            elif isinstance(r, elements.BindParameter) and r.expanding:
                items = [_val(v) for v in r.value]
            else:
                raise OutsideModel(f"IN rhs {type(r).__name__}")
            res = zor(l == i for i in items)
            return res if op is operators.in_op else z3.Not(res)
        if op in (operators.between_op, operators.not_between_op):
            l = as_int(expr(e.left, sc))
            lo, hi = [as_int(expr(c, sc)) for c in e.right.clauses]
            res = z3.And(l >= lo, l <= hi)
            return res if op is operators.between_op else z3.Not(res)
        l = expr(e.left, sc)
        r = expr(e.right, sc)
        if op in _CMP:
            return _CMP[op](as_int(l), as_int(r))
        if op in _ARITH:
            return _ARITH[op](as_int(l), as_int(r))
        raise OutsideModel(f"binary {op}")
    raise OutsideModel(f"expr node {type(e).__name__}")


# ------------------------------------------------------------------------------ FROM / SELECT


def _scope_of(f, vals):
    s = Scope()
    for name, t in vals.items():
        s.m[(id(f), name)] = t
    return s


def from_rows(f, db):
    """-> list of (present, Scope, lineage)."""
    if isinstance(f, sa.Table):
        if f.name not in db:
            raise SqlInvalid(f"no such table: {f.name}")
        return [(s.p, _scope_of(f, s.v), ((f.name, i),)) for i, s in enumerate(db[f.name].slots)]
    if isinstance(f, selectable.Subquery):
        tab = select(f.element, db)
        return [(s.p, _scope_of(f, s.v), (("sub", id(f), i),)) for i, s in enumerate(tab.slots)]
    if isinstance(f, selectable.FromGrouping):
        return from_rows(f.element, db)
    if isinstance(f, selectable.Join):
        L = from_rows(f.left, db)
        R = from_rows(f.right, db)
        _check_ambiguous(f)
        out = []
        for pl, sl, ll in L:
            for pr, sr, lr in R:
                sc = sl.merged(sr)
                on = as_bool(expr(f.onclause, sc)) if f.onclause is not None else z3.BoolVal(True)
                out.append((z3.And(pl, pr, on), sc, ll + lr))
        return out
    raise OutsideModel(f"from node {type(f).__name__}")


def _leaf_froms(f):
    if isinstance(f, selectable.FromGrouping):
        return _leaf_froms(f.element)
    if isinstance(f, selectable.Join):
        return _leaf_froms(f.left) + _leaf_froms(f.right)
    return [f]


def _check_ambiguous(f):
    """The same table object twice in one FROM without an alias: every column reference to it is
    ambiguous for the database (and indistinguishable for this model)."""
    leaves = _leaf_froms(f)
    ids = [id(x) for x in leaves]
    if len(set(ids)) != len(ids):
        raise SqlInvalid("same FROM object twice in one FROM clause without alias: ambiguous column name")
    names = [getattr(x, "name", None) for x in leaves]
    names = [n for n in names if n is not None]
    if len(set(names)) != len(names):
        raise SqlInvalid("two FROM objects with the same name in one FROM clause: ambiguous column name")


def select(q, db):
    """-> Tab whose values are keyed by output column name; ordered iff the query has ORDER BY."""
    if isinstance(q, selectable.CompoundSelect):
        parts = [select(s, db) for s in q.selects]
        names = _out_names(q.selects[0])
        renamed = []
        for s_, t in zip(q.selects, parts):
            n = _out_names(s_)
            if len(n) != len(names):
                raise SqlInvalid("SELECTs to the left and right of UNION do not have the same number of result columns")
            # UNION matches columns by position; the result takes the names of the first SELECT
            renamed.append(Tab([Slot(sl.p, sl.pos, {names[j]: sl.v[n[j]] for j in range(len(names))}) for sl in t.slots], names, t.ordered))
        parts = renamed
        slots = [Slot(s.p, None, s.v) for t in parts for s in t.slots]
        if q.keyword == selectable._CompoundSelectKeyword.UNION:
            slots = _distinct(slots)
        elif q.keyword != selectable._CompoundSelectKeyword.UNION_ALL:
            raise OutsideModel(str(q.keyword))
        scopes = [_scope_named(q, s.v) for s in slots]
        return _finish(q, slots, scopes, names)
    if isinstance(q, selectable.SelectStatementGrouping):
        return select(q.element, db)
    if not isinstance(q, selectable.Select):
        raise OutsideModel(type(q).__name__)
    froms = q.get_final_froms()
    if len(froms) == 0:
        rows = [(z3.BoolVal(True), Scope(), ())]
    elif len(froms) == 1:
        rows = from_rows(froms[0], db)
    else:
        raise OutsideModel("implicit cross join")
    names = _out_names(q)
    if len(set(names)) != len(names):
        raise SqlInvalid("duplicate output column names")
    slots, scopes = [], []
    for p, sc, _lin in rows:
        if q.whereclause is not None:
            p = z3.And(p, as_bool(expr(q.whereclause, sc)))
        v = {c.name: as_int(expr(c, sc)) for c in q._raw_columns}
        slots.append(Slot(p, None, v))
        # ORDER BY may refer to FROM columns as well as to output labels
        sc2 = sc.merged(_scope_named(q, v))
        scopes.append(sc2)
    if q._distinct:
        for o in q._order_by_clauses:
            if not _order_uses_selected(o, q):
                raise OutsideModel("DISTINCT with ORDER BY on a non-selected expression")
        keep = _distinct(slots)
        slots = keep
    return _finish(q, slots, scopes, names)


def _out_names(q):
    if isinstance(q, selectable.SelectStatementGrouping):
        return _out_names(q.element)
    if isinstance(q, selectable.CompoundSelect):
        return _out_names(q.selects[0])
    return [c.name for c in q._raw_columns]


def _scope_named(q, vals):
    s = Scope()
    for c in q.selected_columns:
        if c.name in vals:
            s.m[(id(c.table), c.name)] = vals[c.name]
            s.out[c.name] = vals[c.name]
    return s


def _strip_order(o):
    desc = False
    while True:
        if isinstance(o, elements._label_reference):
            o = o.element
        elif isinstance(o, elements.UnaryExpression) and o.modifier is not None:
            if o.modifier is operators.desc_op:
                desc = True
            elif o.modifier is operators.asc_op:
                desc = False
            else:
                raise OutsideModel(str(o.modifier))
            o = o.element
        else:
            return o, desc


def _order_key(o, sc):
    """Value of an ORDER BY element (modifiers stripped): a label resolves to the output column."""
    if isinstance(o, elements.Label) and o.name in sc.out:
        return sc.out[o.name]
    return expr(o, sc)


def _order_uses_selected(o, q):
    o, _ = _strip_order(o)
    sel = set()
    for c in q._raw_columns:
        sel.add(str(c.element if isinstance(c, elements.Label) else c))
        sel.add(c.name)
    return str(o) in sel or getattr(o, "name", None) in sel


def _distinct(slots):
    out = []
    for i, s in enumerate(slots):
        dup = zor(z3.And(t.p, veq(t.v, s.v)) for t in slots[:i])
        out.append(Slot(z3.And(s.p, z3.Not(dup)), None, s.v))
    return out


def _finish(q, slots, scopes, names):
    order = list(q._order_by_clauses)
    lim, off = q._limit_clause, q._offset_clause
    cols = frozenset(names)
    if not order:
        if lim is not None:
            lt = z3.simplify(as_int(expr(lim, Scope())))
            if z3.is_int_value(lt) and lt.as_long() == 0:
                # LIMIT 0 returns no rows whatever the (unspecified) order
                return Tab([Slot(z3.BoolVal(False), None, s.v) for s in slots], cols, False)
        if lim is not None or off is not None:
            raise OutsideModel("LIMIT/OFFSET without ORDER BY (indeterminate)")
        return Tab(slots, cols, False)
    keys = []
    for s, sc in zip(slots, scopes):
        ks = []
        for o in order:
            o, desc = _strip_order(o)
            ks.append((as_int(_order_key(o, sc)), desc))
        keys.append(ks)

    def before(i, j):
        r = z3.BoolVal(i < j)  # arbitrary tie-break; callers require a total order up to identical rows
        for (x, d), (y, _) in reversed(list(zip(keys[i], keys[j]))):
            r = z3.Or((x > y) if d else (x < y), z3.And(x == y, r))
        return r

    o_ = as_int(expr(off, Scope())) if off is not None else z3.IntVal(0)
    out = []
    for j, s in enumerate(slots):
        pos = zsum(b2i(z3.And(t.p, before(i, j))) for i, t in enumerate(slots) if i != j)
        p = s.p
        if off is not None:
            p = z3.And(p, pos >= o_)
        if lim is not None:
            p = z3.And(p, pos < o_ + as_int(expr(lim, Scope())))
        out.append(Slot(p, pos - o_, s.v))
    t = Tab(out, cols, True)
    t_keys = keys
    t.__dict__ if False else None
    return t


def order_total(q, db):
    """Condition under which the outermost ORDER BY orders the rows totally up to identical rows."""
    raise NotImplementedError


# ------------------------------------------------------------------------------ real SQLite


def run_sqlite(executable, metadata, tables, reverse=False, explain_only=False):
    """Execute a (concrete-parameter) statement on an in-memory SQLite.  tables: name -> list of
    dict colname -> int.  Returns list of dict (column name -> value)."""
    eng = sa.create_engine("sqlite://")
    with eng.connect() as conn:
        if metadata is not None:
            metadata.create_all(conn)
            for name, rows in tables.items():
                if rows:
                    conn.execute(metadata.tables[name].insert(), rows)
        if reverse:
            conn.exec_driver_sql("PRAGMA reverse_unordered_selects = 1")
        if explain_only:
            compiled = executable.compile(conn, compile_kwargs={"literal_binds": True})
            conn.exec_driver_sql("EXPLAIN " + str(compiled))
            return None
        res = conn.execute(executable)
        keys = list(res.keys())
        return [dict(zip(keys, (int(v) if isinstance(v, bool) else v for v in row))) for row in res.fetchall()]


def eval_expr_sqlite(element, table, row):
    """SELECT <element> FROM one-row table: the database's own evaluation of an expression."""
    md = table.metadata
    eng = sa.create_engine("sqlite://")
    with eng.connect() as conn:
        md.create_all(conn)
        conn.execute(table.insert(), [row])
        v = conn.execute(sa.select(element.label("v")).select_from(table)).scalar()
        return v
