"""Expression semantics: program-AST -> z3 / python / library objects, and library objects -> z3.

AST (nested tuples):
  ("ref", tag) ("lit", v) ("neg", x) ("add"|"sub"|"mul", x, y)
  ("eq"|"ne"|"lt"|"le"|"gt"|"ge", x, y) ("and", p...) ("or", p...) ("not", p)
  ("plit", bool) ("pref", tag) ("inrange", x, start, stop, step) ("inseq", x, (items...))
A literal value is an int or a "$name" parameter.
"""
from __future__ import annotations

import z3

from .relmodel import zand, zor
from .symx import SymBool, SymInt, floormod

EFN = {"it": "verif_negate_it", "sq": "verif_negate_sq",  # engine-specific functions (meaning: negation)
       "none": "verif_negate_none"}  # ... and one declared with an empty collection of supporting engine types: no engine supports it
ARITH = {"neg": "__neg__", "add": "__add__", "sub": "__sub__", "mul": "__mul__"}
CMP = {"eq": "__eq__", "ne": "__ne__", "lt": "__lt__", "le": "__le__", "gt": "__gt__", "ge": "__ge__"}
PRED_HEADS = set(CMP) | {"and", "or", "not", "plit", "pref", "inrange", "inseq", "rgt"}


def is_pred(e):
    return e[0] in PRED_HEADS


def zval(x, bind=None):
    if isinstance(x, str):
        x = bind[x]
    if isinstance(x, SymInt):
        return x.t
    if isinstance(x, SymBool):
        return x.t
    if isinstance(x, bool):
        return z3.BoolVal(x)
    if isinstance(x, int):
        return z3.IntVal(x)
    if isinstance(x, float):
        return z3.RealVal(repr(x))
    if z3.is_expr(x):
        return x
    raise TypeError(f"no z3 value for {x!r}")


def range_member_z3(x, start, stop, step):
    """x in range(start, stop, step) for concrete ints start/stop/step."""
    if step > 0:
        return z3.And(x >= start, x < stop, floormod(x - start, z3.IntVal(step)) == 0)
    return z3.And(x <= start, x > stop, floormod(start - x, z3.IntVal(-step)) == 0)


# ----------------------------------------------------------------- AST -> z3


def z3_of_ast(e, row, bind):
    h = e[0]
    if h == "ref":
        return row[e[1]]
    if h == "lit":
        return zval(e[1], bind)
    if h in ("neg", "rneg", "efn"):
        return -z3_of_ast(e[1], row, bind)
    if h == "rgt":
        return z3_of_ast(e[1], row, bind) > z3_of_ast(e[2], row, bind)
    if h in ("add", "sub", "mul"):
        x, y = z3_of_ast(e[1], row, bind), z3_of_ast(e[2], row, bind)
        return x + y if h == "add" else x - y if h == "sub" else x * y
    if h in CMP:
        x, y = z3_of_ast(e[1], row, bind), z3_of_ast(e[2], row, bind)
        return {"eq": x == y, "ne": x != y, "lt": x < y, "le": x <= y, "gt": x > y, "ge": x >= y}[h]
    if h == "and":
        return zand(z3_of_ast(p, row, bind) for p in e[1:])
    if h == "or":
        return zor(z3_of_ast(p, row, bind) for p in e[1:])
    if h == "not":
        return z3.Not(z3_of_ast(e[1], row, bind))
    if h == "plit":
        return z3.BoolVal(bool(e[1]))
    if h == "pref":
        return row[e[1]] != 0
    if h == "inrange":
        x = z3_of_ast(e[1], row, bind)
        start, stop, step = (int(bind[v]) if isinstance(v, str) else v for v in e[2:5])
        return range_member_z3(x, start, stop, step)
    if h == "inseq":
        x = z3_of_ast(e[1], row, bind)
        return zor(x == z3_of_ast(i, row, bind) for i in e[2])
    raise TypeError(f"bad expression {e!r}")


# ----------------------------------------------------------------- AST -> python value


def py_of_ast(e, row, bind):
    h = e[0]
    if h == "ref":
        return row[e[1]]
    if h == "lit":
        return bind[e[1]] if isinstance(e[1], str) else e[1]
    if h in ("neg", "rneg", "efn"):
        return -py_of_ast(e[1], row, bind)
    if h == "rgt":
        return py_of_ast(e[1], row, bind) > py_of_ast(e[2], row, bind)
    if h in ("add", "sub", "mul"):
        x, y = py_of_ast(e[1], row, bind), py_of_ast(e[2], row, bind)
        return x + y if h == "add" else x - y if h == "sub" else x * y
    if h in CMP:
        x, y = py_of_ast(e[1], row, bind), py_of_ast(e[2], row, bind)
        return {"eq": x == y, "ne": x != y, "lt": x < y, "le": x <= y, "gt": x > y, "ge": x >= y}[h]
    if h == "and":
        return all(py_of_ast(p, row, bind) for p in e[1:])
    if h == "or":
        return any(py_of_ast(p, row, bind) for p in e[1:])
    if h == "not":
        return not py_of_ast(e[1], row, bind)
    if h == "plit":
        return bool(e[1])
    if h == "pref":
        return row[e[1]] != 0
    if h == "inrange":
        x = py_of_ast(e[1], row, bind)
        start, stop, step = (bind[v] if isinstance(v, str) else v for v in e[2:5])
        if step > 0:
            return start <= x < stop and (x - start) % step == 0
        return stop < x <= start and (start - x) % (-step) == 0
    if h == "inseq":
        x = py_of_ast(e[1], row, bind)
        return any(x == py_of_ast(i, row, bind) for i in e[2])
    raise TypeError(f"bad expression {e!r}")


def ast_columns(e):
    h = e[0]
    if h in ("ref", "pref"):
        return {e[1]}
    if h in ("lit", "plit"):
        return set()
    if h == "inrange":
        return ast_columns(e[1])
    if h in ("rneg", "efn"):
        return ast_columns(e[1])
    if h == "rgt":
        return ast_columns(e[1]) | ast_columns(e[2])
    if h == "inseq":
        out = ast_columns(e[1])
        for i in e[2]:
            out |= ast_columns(i)
        return out
    out = set()
    for x in e[1:]:
        out |= ast_columns(x)
    return out


def ast_str(e):
    h = e[0]
    if h in ("ref", "pref"):
        return e[1]
    if h in ("lit", "plit"):
        return str(e[1])
    if h == "neg":
        return f"-({ast_str(e[1])})"
    if h == "rneg":
        return f"-{e[2]}({ast_str(e[1])})"
    if h == "efn":
        return f"{EFN[e[2]]}({ast_str(e[1])})"
    if h == "rgt":
        return f"({ast_str(e[1])}>{e[3]} {ast_str(e[2])})"
    sym = {"add": "+", "sub": "-", "mul": "*", "eq": "=", "ne": "!=", "lt": "<", "le": "<=", "gt": ">", "ge": ">="}
    if h in sym:
        return f"({ast_str(e[1])}{sym[h]}{ast_str(e[2])})"
    if h in ("and", "or"):
        return h.upper() + "(" + ",".join(ast_str(p) for p in e[1:]) + ")"
    if h == "not":
        return f"NOT({ast_str(e[1])})"
    if h == "inrange":
        return f"{ast_str(e[1])} in range({e[2]},{e[3]},{e[4]})"
    if h == "inseq":
        return f"{ast_str(e[1])} in [" + ",".join(ast_str(i) for i in e[2]) + "]"
    return repr(e)


# ----------------------------------------------------------------- AST -> library objects


_SHARED = [None]  # while set: one library object per distinct sub-AST (callers keep and re-use sub-expressions)


def lib_of_ast(e, tags, val, memo=None):
    """tags: name -> ColumnTag; val(v) -> python/SymInt value for a literal (int or "$name").  With `memo` (a dict) every distinct
    sub-expression AST is built once and the same library object is handed to every use of it."""
    outer = memo is not None and _SHARED[0] is None
    if outer:
        _SHARED[0] = memo
    try:
        m = _SHARED[0]
        if m is not None:
            try:
                if ("sub", e) in m:
                    return m[("sub", e)]
            except TypeError:
                m = None
        r = _lib_of_ast(e, tags, val)
        if m is not None:
            m[("sub", e)] = r
        return r
    finally:
        if outer:
            _SHARED[0] = None


def _lib_of_ast(e, tags, val):
    from lsst.daf.relation import ColumnContainer, ColumnExpression, Predicate

    h = e[0]
    if h == "ref":
        return ColumnExpression.reference(tags[e[1]])
    if h == "lit":
        return ColumnExpression.literal(val(e[1]))
    if h == "neg":
        return lib_of_ast(e[1], tags, val).method("__neg__")
    if h == "efn":
        # a function only one engine kind implements (registered by Env in that kind's `functions` only) and declared so
        from lsst.daf.relation import iteration, sql

        kinds = {"it": (iteration.Engine,), "sq": (sql.Engine,), "none": ()}[e[2]]
        return lib_of_ast(e[1], tags, val).method(EFN[e[2]], supporting_engine_types=kinds)
    if h in ("rneg", "rgt"):
        from lsst.daf.relation import iteration, sql

        kinds = {"it": (iteration.Engine,), "sq": (sql.Engine,), "both": (iteration.Engine, sql.Engine)}[e[-1]]
        if h == "rneg":
            return lib_of_ast(e[1], tags, val).method("__neg__", supporting_engine_types=kinds)
        return lib_of_ast(e[1], tags, val).predicate_method("__gt__", lib_of_ast(e[2], tags, val), supporting_engine_types=set(kinds))
    if h in ("add", "sub", "mul"):
        return lib_of_ast(e[1], tags, val).method(ARITH[h], lib_of_ast(e[2], tags, val))
    if h in CMP:
        return getattr(lib_of_ast(e[1], tags, val), h)(lib_of_ast(e[2], tags, val))
    if h == "and":
        from lsst.daf.relation import LogicalAnd

        ops = tuple(lib_of_ast(p, tags, val) for p in e[1:])
        return LogicalAnd(ops)
    if h == "or":
        from lsst.daf.relation import LogicalOr

        ops = tuple(lib_of_ast(p, tags, val) for p in e[1:])
        return LogicalOr(ops)
    if h == "not":
        return lib_of_ast(e[1], tags, val).logical_not()
    if h == "plit":
        return Predicate.literal(bool(e[1]))
    if h == "pref":
        return Predicate.reference(tags[e[1]])
    if h == "inrange":
        start, stop, step = (int(val(v)) for v in e[2:5])
        return ColumnContainer.range_literal(range(start, stop, step)).contains(lib_of_ast(e[1], tags, val))
    if h == "inseq":
        return ColumnContainer.sequence([lib_of_ast(i, tags, val) for i in e[2]]).contains(
            lib_of_ast(e[1], tags, val)
        )
    raise TypeError(f"bad expression {e!r}")


# ----------------------------------------------------------------- library objects -> z3


def z3_of_lib(e, row):
    """Interpret a real ColumnExpression / Predicate; row keyed by qualified_name."""
    from lsst.daf.relation import (
        ColumnExpressionSequence,
        ColumnFunction,
        ColumnInContainer,
        ColumnLiteral,
        ColumnRangeLiteral,
        ColumnReference,
        LogicalAnd,
        LogicalNot,
        LogicalOr,
        PredicateFunction,
        PredicateLiteral,
        PredicateReference,
    )

    if isinstance(e, ColumnLiteral):
        v = zval(e.value)
        return z3.If(v, 1, 0) if z3.is_bool(v) else v
    if isinstance(e, ColumnReference):
        return row[e.tag.qualified_name]
    if isinstance(e, ColumnFunction):
        xs = [z3_of_lib(a, row) for a in e.args]
        if e.name == "__neg__" or e.name in EFN.values():
            return -xs[0]
        if e.name == "__add__":
            return xs[0] + xs[1]
        if e.name == "__sub__":
            return xs[0] - xs[1]
        if e.name == "__mul__":
            return xs[0] * xs[1]
        raise TypeError(f"unsupported function {e.name}")
    if isinstance(e, PredicateFunction):
        x, y = [z3_of_lib(a, row) for a in e.args]
        return {"__eq__": x == y, "__ne__": x != y, "__lt__": x < y, "__le__": x <= y, "__gt__": x > y,
                "__ge__": x >= y}[e.name]
    if isinstance(e, PredicateLiteral):
        return zval(e.value) if not isinstance(e.value, int) or isinstance(e.value, bool) else z3.BoolVal(bool(e.value))
    if isinstance(e, PredicateReference):
        return row[e.tag.qualified_name] != 0
    if isinstance(e, LogicalNot):
        return z3.Not(z3_of_lib(e.operand, row))
    if isinstance(e, LogicalAnd):
        return zand(z3_of_lib(o, row) for o in e.operands)
    if isinstance(e, LogicalOr):
        return zor(z3_of_lib(o, row) for o in e.operands)
    if isinstance(e, ColumnInContainer):
        x = z3_of_lib(e.item, row)
        c = e.container
        if isinstance(c, ColumnRangeLiteral):
            r = c.value
            return range_member_z3(x, r.start, r.stop, r.step)
        if isinstance(c, ColumnExpressionSequence):
            return zor(x == z3_of_lib(i, row) for i in c.items)
    raise TypeError(f"unsupported expression {e!r}")


def lib_supported(e, engine):
    """Independent reading of "engine supports this expression": every (predicate) function node restricted to engine types
    must name the engine's type; all other nodes only recurse.  Does not call the library's is_supported_by."""
    from lsst.daf.relation import (ColumnExpressionSequence, ColumnFunction, ColumnInContainer, LogicalAnd, LogicalNot, LogicalOr,
                                   PredicateFunction)

    if isinstance(e, (ColumnFunction, PredicateFunction)):
        if e.name == EFN["none"]:
            return False  # declared (by the harness) with supporting_engine_types=(): what the object remembers of that is under test
        types = e.supporting_engine_types
        if types is not None and not isinstance(engine, tuple(types) if not isinstance(types, type) else types):
            return False
        return all(lib_supported(a, engine) for a in e.args)
    if isinstance(e, LogicalNot):
        return lib_supported(e.operand, engine)
    if isinstance(e, (LogicalAnd, LogicalOr)):
        return all(lib_supported(o, engine) for o in e.operands)
    if isinstance(e, ColumnInContainer):
        return lib_supported(e.item, engine) and lib_supported(e.container, engine)
    if isinstance(e, ColumnExpressionSequence):
        return all(lib_supported(i, engine) for i in e.items)
    return True


def op_supported(o, engine):
    """The same for a real unary operation / join."""
    from lsst.daf.relation import Calculation, Join, PartialJoin, Selection, Sort

    if isinstance(o, Calculation):
        return lib_supported(o.expression, engine)
    if isinstance(o, Selection):
        return lib_supported(o.predicate, engine)
    if isinstance(o, Sort):
        return all(lib_supported(t.expression, engine) for t in o.terms)
    if isinstance(o, Join):
        return lib_supported(o.predicate, engine)
    if isinstance(o, PartialJoin):
        return lib_supported(o.binary.predicate, engine)
    return True


def restricted_twins(e):
    """ASTs equal to sub-expressions of e as the library compares them (same function name and arguments) but declared with
    other engine restrictions."""
    out = []
    if not isinstance(e, tuple) or not e:
        return out
    if e[0] == "rneg":
        out += [("neg", e[1])] + [("rneg", e[1], k) for k in ("it", "sq", "both") if k != e[2]]
    elif e[0] == "rgt":
        out += [("gt", e[1], e[2])] + [("rgt", e[1], e[2], k) for k in ("it", "sq", "both") if k != e[3]]
    elif e[0] == "neg":
        out += [("rneg", e[1], k) for k in ("it", "sq")]
    for x in e[1:]:
        if isinstance(x, tuple):
            out += restricted_twins(x)
    return out
