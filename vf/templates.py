"""Operation templates (program fragments with symbolic parameters).  DESIGN.md 2.5."""
from __future__ import annotations

import itertools

A, B, C = ("ref", "a"), ("ref", "b"), ("ref", "c")


def ref(c):
    return ("ref", c)


class P:
    """Parameter declarations accumulated while instantiating templates."""

    def __init__(self, slice_hi=None):
        self.params = {}  # "$name" -> [lo, hi]
        self.cons = []  # [a, b] meaning a <= b
        self.n = 0
        self.slice_hi = slice_hi

    def fresh(self, stem, lo=None, hi=None):
        self.n += 1
        name = f"${stem}{self.n}"
        self.params[name] = [lo, hi]
        return name

    def le(self, a, b):
        self.cons.append([a, b])


def declare(ctx, env, params, cons):
    for name, (lo, hi) in params.items():
        env.bind[name] = ctx.int(name[1:], lo, hi)
    for a, b in cons:
        ctx.assume(env.bind[a].t <= env.bind[b].t)


def bind_concrete(params, model):
    return {name: int(model.get(name[1:], 0 if params[name][0] is None else params[name][0])) for name in params}


# Each template: (label, needs(cols) -> bool, make(child, P, cols) -> node)


def _calc(tag, f, need):
    return (f"calc {tag}", lambda cols: set(need) <= cols and tag not in cols,
            lambda ch, p, cols: ("calc", ch, tag, f(p)))


def unary_templates(level="std"):
    T = []
    T.append(_calc("d", lambda p: ("add", A, B), "ab"))
    T.append(_calc("d", lambda p: ("neg", A), "a"))
    T.append(_calc("e", lambda p: ("sub", A, ("lit", p.fresh("k"))), "a"))
    if level == "full":
        T.append(_calc("e", lambda p: ("mul", ("ref", "d"), ("lit", 3)), "d"))
        T.append(_calc("c", lambda p: ("add", A, B), "ab"))
        T.append(_calc("d", lambda p: ("mul", B, ("lit", -2)), "b"))

    def projs():
        out = []
        out.append(("proj -a", lambda cols: "a" in cols, lambda ch, p, cols: ("proj", ch, tuple(sorted(cols - {"a"})))))
        out.append(("proj -b", lambda cols: "b" in cols, lambda ch, p, cols: ("proj", ch, tuple(sorted(cols - {"b"})))))
        out.append(("proj -c", lambda cols: "c" in cols and len(cols) > 1, lambda ch, p, cols: ("proj", ch, tuple(sorted(cols - {"c"})))))
        out.append(("proj -d", lambda cols: "d" in cols, lambda ch, p, cols: ("proj", ch, tuple(sorted(cols - {"d"})))))
        out.append(("proj -e", lambda cols: "e" in cols, lambda ch, p, cols: ("proj", ch, tuple(sorted(cols - {"e"})))))
        out.append(("proj -v", lambda cols: "v" in cols, lambda ch, p, cols: ("proj", ch, tuple(sorted(cols - {"v"})))))
        out.append(("proj a", lambda cols: "a" in cols and len(cols) > 1, lambda ch, p, cols: ("proj", ch, ("a",))))
        out.append(("proj all", lambda cols: True, lambda ch, p, cols: ("proj", ch, tuple(sorted(cols)))))
        out.append(("proj none", lambda cols: len(cols) > 0, lambda ch, p, cols: ("proj", ch, ())))
        return out

    T += projs()
    T.append(("sel a>k", lambda cols: "a" in cols, lambda ch, p, cols: ("sel", ch, ("gt", A, ("lit", p.fresh("k"))))))
    T.append(("sel a=b", lambda cols: {"a", "b"} <= cols, lambda ch, p, cols: ("sel", ch, ("eq", A, B))))
    T.append(("sel true", lambda cols: True, lambda ch, p, cols: ("sel", ch, ("plit", True))))
    T.append(("sel false", lambda cols: True, lambda ch, p, cols: ("sel", ch, ("plit", False))))
    T.append(("sel and", lambda cols: {"a", "b"} <= cols,
              lambda ch, p, cols: ("sel", ch, ("and", ("ge", A, ("lit", p.fresh("k"))), ("lt", B, ("lit", p.fresh("k")))))))
    T.append(("sel not", lambda cols: "a" in cols,
              lambda ch, p, cols: ("sel", ch, ("not", ("lt", A, ("lit", p.fresh("k")))))))
    if level == "full":
        T.append(("sel or", lambda cols: {"a", "b"} <= cols,
                  lambda ch, p, cols: ("sel", ch, ("or", ("eq", A, ("lit", p.fresh("k"))), ("gt", B, A)))))
        T.append(("sel not(p|F)", lambda cols: "a" in cols,
                  lambda ch, p, cols: ("sel", ch, ("not", ("or", ("gt", A, ("lit", p.fresh("k"))), ("plit", False))))))
        T.append(("sel p|F", lambda cols: "a" in cols,
                  lambda ch, p, cols: ("sel", ch, ("or", ("gt", A, ("lit", p.fresh("k"))), ("not", ("plit", True))))))
        T.append(("sel and()", lambda cols: True, lambda ch, p, cols: ("sel", ch, ("and",))))
        T.append(("sel or()", lambda cols: True, lambda ch, p, cols: ("sel", ch, ("or",))))
        T.append(("sel p&false", lambda cols: "a" in cols,
                  lambda ch, p, cols: ("sel", ch, ("and", ("gt", A, ("lit", p.fresh("k"))), ("plit", False)))))
        T.append(("sel inseq", lambda cols: {"a", "b"} <= cols,
                  lambda ch, p, cols: ("sel", ch, ("inseq", B, (A, ("lit", p.fresh("k")))))))
        T.append(("sel inrange", lambda cols: "a" in cols,
                  lambda ch, p, cols: ("sel", ch, ("inrange", A, 1, 6, 2))))
    if level == "full":
        # container predicates whose folding answer could make the selection vanish (or doom it): descending, empty and
        # literal-free containers, under a negation as well
        T.append(("sel not inrange desc", lambda cols: "a" in cols,
                  lambda ch, p, cols: ("sel", ch, ("not", ("inrange", A, 5, 1, -1)))))
        T.append(("sel inrange empty", lambda cols: "a" in cols,
                  lambda ch, p, cols: ("sel", ch, ("inrange", A, 3, 3, 1))))
        T.append(("sel not inseq()", lambda cols: "a" in cols,
                  lambda ch, p, cols: ("sel", ch, ("not", ("inseq", A, ())))))
    T.append(("dedup", lambda cols: True, lambda ch, p, cols: ("dedup", ch)))
    T.append(("sort a", lambda cols: "a" in cols, lambda ch, p, cols: ("sort", ch, ((A, True),))))
    T.append(("sort -a", lambda cols: "a" in cols, lambda ch, p, cols: ("sort", ch, ((A, False),))))
    T.append(("sort b,-a", lambda cols: {"a", "b"} <= cols, lambda ch, p, cols: ("sort", ch, ((B, True), (A, False)))))
    T.append(("sort total", lambda cols: len(cols) > 0,
              lambda ch, p, cols: ("sort", ch, tuple((ref(c), i % 2 == 0) for i, c in enumerate(sorted(cols))))))
    if level == "full":
        T.append(("sort a,a", lambda cols: "a" in cols, lambda ch, p, cols: ("sort", ch, ((A, True), (A, True)))))
        T.append(("sort a,-a", lambda cols: "a" in cols, lambda ch, p, cols: ("sort", ch, ((A, True), (A, False)))))
        T.append(("sort a+b", lambda cols: {"a", "b"} <= cols, lambda ch, p, cols: ("sort", ch, ((("add", A, B), True),))))
        T.append(("sort a-k", lambda cols: "a" in cols,
                  lambda ch, p, cols: ("sort", ch, ((("sub", A, ("lit", p.fresh("k"))), False),))))
    T.append(("sort none", lambda cols: True, lambda ch, p, cols: ("sort", ch, ())))

    def sl(ch, p, cols):
        s, e = p.fresh("s", 0, p.slice_hi), p.fresh("e", 0, p.slice_hi)
        p.le(s, e)
        return ("slice", ch, s, e)

    T.append(("slice s:e", lambda cols: True, sl))
    T.append(("slice s:", lambda cols: True, lambda ch, p, cols: ("slice", ch, p.fresh("s", 0, p.slice_hi), None)))
    T.append(("slice :", lambda cols: True, lambda ch, p, cols: ("slice", ch, None, None)))
    if level == "full":
        T.append(("slice :e", lambda cols: True, lambda ch, p, cols: ("slice", ch, None, p.fresh("e", 0, p.slice_hi))))
        T.append(("slice 0:e", lambda cols: True, lambda ch, p, cols: ("slice", ch, 0, p.fresh("e", 0, p.slice_hi))))
    return T


def cols_after(node, leafcols):
    from .prog import cols_of

    return cols_of(node, leafcols)


def unary_sequences(start_node, leafcols, depth, level="std", slice_hi=None, labels=None):
    """All programs applying `depth` templates (valid on the running columns) on top of start_node.
    Yields (labels, node, P)."""
    T = unary_templates(level)
    if labels is not None:
        T = [t for t in T if t[0] in labels]

    def rec(node, p, labs, d):
        if d == 0:
            yield labs, node, p
            return
        cols = set(cols_after(node, leafcols))
        for lab, need, make in T:
            if not need(cols):
                continue
            p2 = P(p.slice_hi)
            p2.params = dict(p.params)
            p2.cons = list(p.cons)
            p2.n = p.n
            n2 = make(node, p2, cols)
            yield from rec(n2, p2, labs + (lab,), d - 1)

    yield from rec(start_node, P(slice_hi), (), depth)
