"""symx - a small symbolic executor for *unmodified* Python code, z3 back end.

Int-like / bool-like proxy objects flow through the real library functions; every
truth test on a symbolic value forks (depth-first, by re-execution from the
harness entry, decisions replayed without solver calls).  See DESIGN.md 2.2.
"""
from __future__ import annotations

import contextlib
import sys
import time
import zlib

import z3

import os

REPO_PREFIX = os.environ.get("VERIF_REPO", "/repo").rstrip("/") + "/python/"


class PathAbort(BaseException):
    """Current path is infeasible (steering exception: BaseException on purpose)."""


class BudgetExceeded(BaseException):
    """Path / time budget of a shape exhausted."""


class HarnessError(Exception):
    """The machinery, not the library, is wrong (exit 2)."""


class PathTimeout(BaseException):
    """A single path (or a concrete replay) did not come back within its wall-clock limit."""


PATH_LIMIT = int(os.environ.get("VERIF_PATH_TIMEOUT", "150"))


@contextlib.contextmanager
def time_limit(seconds):
    """Raise PathTimeout inside the block after `seconds` (SIGALRM; nests inside an outer alarm, no-op outside the main thread)."""
    import signal

    def handler(signum, frame):
        raise PathTimeout()

    t0 = time.time()
    try:
        old = signal.signal(signal.SIGALRM, handler)
    except ValueError:
        yield
        return
    remaining, _ = signal.setitimer(signal.ITIMER_REAL, seconds)  # (float seconds left on an outer timer, exactly)
    try:
        yield
    finally:
        signal.setitimer(signal.ITIMER_REAL, 0)
        signal.signal(signal.SIGALRM, old)
        if remaining:
            signal.setitimer(signal.ITIMER_REAL, max(0.05, remaining - (time.time() - t0)))


class Ctx:
    cur: "Ctx | None" = None

    def __init__(self, trace, timeout_ms=30000):
        self.solver = z3.Solver()
        self.solver.set("timeout", timeout_ms)
        self.solver.set("random_seed", 0)
        self.trace = trace  # list of [value, has_alternative]
        self.pos = 0
        self.pc = []
        self.assumptions = []
        self.excluded = []
        self.vars = {}  # name -> z3 const
        self.queries = 0
        self.solver_time = 0.0
        self.unknowns = 0
        self.notes = {}
        self.concretised = 0
        self.decided = {}  # z3 AST id -> (AST kept alive, value): conditions already decided on this path

    # -- variables -------------------------------------------------------
    def int(self, name, lo=None, hi=None):
        v = self.vars.get(name)
        if v is None:
            v = z3.Int(name)
            self.vars[name] = v
            if lo is not None:
                self.assume(v >= lo)
            if hi is not None:
                self.assume(v <= hi)
        return SymInt(v)

    def bool(self, name):
        v = self.vars.get(name)
        if v is None:
            v = z3.Bool(name)
            self.vars[name] = v
        return SymBool(v)

    def assume(self, cond):
        """Assume a condition.  Before the first decision it is a global precondition; later it
        restricts the current path only and the region it removes is recorded as assumed away
        (for the coverage query)."""
        cond = _zb(cond)
        if self.pc:
            self.excluded.append(z3.And(*self.pc, z3.Not(cond)))
            self.pc.append(cond)
        else:
            self.assumptions.append(cond)
        self.solver.add(cond)

    # -- solver ----------------------------------------------------------
    def check(self, *extra):
        t = time.time()
        self.queries += 1
        r = self.solver.check(*extra)
        self.solver_time += time.time() - t
        if r == z3.unknown:
            self.unknowns += 1
        return r

    def branch(self, cond):
        """Concrete bool for a z3 Bool, forking when both sides are feasible."""
        cond = z3.simplify(cond)
        if z3.is_true(cond):
            return True
        if z3.is_false(cond):
            return False
        hit = self.decided.get(cond.get_id())
        if hit is not None:
            return hit[1]  # the same condition was decided earlier on this path: it is in the path condition already
        if self.pos < len(self.trace):
            val = self.trace[self.pos][0]
        else:
            rt = self.check(cond)
            rf = self.check(z3.Not(cond))
            if rt == z3.unknown or rf == z3.unknown:
                raise BudgetExceeded("solver unknown in branch")
            can_t = rt == z3.sat
            can_f = rf == z3.sat
            if can_t and can_f:
                self.trace.append([True, True, None])
                val = True
            elif can_t:
                self.trace.append([True, False, None])
                val = True
            elif can_f:
                self.trace.append([False, False, None])
                val = False
            else:
                raise PathAbort()
        self.pos += 1
        c = cond if val else z3.Not(cond)
        self.solver.add(c)
        self.pc.append(c)
        self.decided[cond.get_id()] = (cond, val)
        neg = z3.simplify(z3.Not(cond))
        self.decided[neg.get_id()] = (neg, not val)
        return val

    def concretise(self, term):
        """Case split a term over its feasible values (finite domain required).

        The guessed value is stored in the decision trace so that replays are exact.
        """
        term = z3.simplify(term)
        if z3.is_int_value(term):
            return term.as_long()
        n = 0
        while True:
            n += 1
            if n > 64:
                raise HarnessError(f"unbounded concretisation of {term}")
            if self.pos < len(self.trace):
                val, _alt, v = self.trace[self.pos]
                self.pos += 1
                c = (term == v) if val else (term != v)
                self.solver.add(c)
                self.pc.append(c)
                if val:
                    self.concretised += 1
                    return v
                continue
            r = self.check()
            if r != z3.sat:
                if r == z3.unknown:
                    raise BudgetExceeded("solver unknown in concretise")
                raise PathAbort()
            v = self.solver.model().eval(term, model_completion=True).as_long()
            ro = self.check(term != v)
            if ro == z3.unknown:
                raise BudgetExceeded("solver unknown in concretise")
            self.trace.append([True, ro == z3.sat, v])
            self.pos += 1
            c = term == v
            self.solver.add(c)
            self.pc.append(c)
            self.concretised += 1
            return v


def _zi(x):
    if isinstance(x, SymInt):
        return x.t
    if isinstance(x, SymBool):
        return z3.If(x.t, 1, 0)
    if isinstance(x, bool):
        return z3.IntVal(int(x))
    if isinstance(x, int):
        return z3.IntVal(x)
    if isinstance(x, float) and x == x and x not in (float("inf"), float("-inf")):
        return z3.RealVal(repr(x))  # comparisons of a symbolic integer with a float literal (z3 coerces Int to Real)
    return None


def _zb(x):
    if isinstance(x, SymBool):
        return x.t
    if isinstance(x, SymInt):
        return x.t != 0
    if isinstance(x, bool):
        return z3.BoolVal(x)
    if z3.is_expr(x):
        return x
    raise TypeError(f"not boolean-like: {x!r}")


def zint(x):
    r = _zi(x)
    if r is None:
        raise TypeError(f"not int-like: {x!r}")
    return r


def zbool(x):
    return _zb(x)


def floordiv(a, b):
    """Python floor division on z3 ints (z3 div is Euclidean)."""
    q = a / b
    return z3.If(b > 0, q, z3.If(a % b == 0, q, q - 1)) if not z3.is_int_value(b) else (
        q if b.as_long() > 0 else z3.If(a % b == 0, q, q - 1)
    )


def floormod(a, b):
    """Python floor modulus on z3 ints (z3 mod is Euclidean, result >= 0)."""
    m = a % b
    if z3.is_int_value(b):
        return m if b.as_long() > 0 else z3.If(m != 0, m + b, m)
    return z3.If(z3.And(b < 0, m != 0), m + b, m)


class SymBool:
    __slots__ = ("t",)

    def __init__(self, t):
        self.t = t

    def __bool__(self):
        return Ctx.cur.branch(self.t)

    def __hash__(self):
        return 0

    def __and__(self, o):
        return SymBool(z3.And(self.t, _zb(o)))

    __rand__ = __and__

    def __or__(self, o):
        return SymBool(z3.Or(self.t, _zb(o)))

    __ror__ = __or__

    def __invert__(self):
        return SymBool(z3.Not(self.t))

    def __eq__(self, o):
        if isinstance(o, (SymBool, bool)):
            return SymBool(self.t == _zb(o))
        z = _zi(o)
        if z is None:
            return NotImplemented
        return SymBool(z3.If(self.t, 1, 0) == z)

    def __ne__(self, o):
        r = self.__eq__(o)
        return r if r is NotImplemented else SymBool(z3.Not(r.t))

    def __int__(self):
        return 1 if bool(self) else 0

    __index__ = __int__

    def __repr__(self):
        return f"SymBool({self.t})"


class SymInt:
    __slots__ = ("t",)

    def __init__(self, t):
        self.t = t if z3.is_expr(t) else z3.IntVal(t)

    def __hash__(self):
        return 0

    def _bin(self, o, f):
        z = _zi(o)
        if z is None:
            return NotImplemented
        return SymInt(f(self.t, z))

    def _cmp(self, o, f):
        z = _zi(o)
        if z is None:
            return NotImplemented
        return SymBool(f(self.t, z))

    def __add__(self, o):
        return self._bin(o, lambda a, b: a + b)

    def __radd__(self, o):
        return self._bin(o, lambda a, b: b + a)

    def __sub__(self, o):
        return self._bin(o, lambda a, b: a - b)

    def __rsub__(self, o):
        return self._bin(o, lambda a, b: b - a)

    def __mul__(self, o):
        z = _zi(o)
        if z is None:
            return NotImplemented
        return SymInt(_mul(self.t, z))

    def __rmul__(self, o):
        z = _zi(o)
        if z is None:
            return NotImplemented
        return SymInt(_mul(z, self.t))

    def __neg__(self):
        return SymInt(-self.t)

    def __pos__(self):
        return self

    def __abs__(self):
        return SymInt(z3.If(self.t >= 0, self.t, -self.t))

    def __mod__(self, o):
        z = _zi(o)
        if z is None:
            return NotImplemented
        return SymInt(floormod(self.t, _const_divisor(z)))

    def __rmod__(self, o):
        z = _zi(o)
        if z is None:
            return NotImplemented
        return SymInt(floormod(z, _const_divisor(self.t)))

    def __floordiv__(self, o):
        z = _zi(o)
        if z is None:
            return NotImplemented
        return SymInt(floordiv(self.t, _const_divisor(z)))

    def __eq__(self, o):
        return self._cmp(o, lambda a, b: a == b)

    def __ne__(self, o):
        return self._cmp(o, lambda a, b: a != b)

    def __lt__(self, o):
        return self._cmp(o, lambda a, b: a < b)

    def __le__(self, o):
        return self._cmp(o, lambda a, b: a <= b)

    def __gt__(self, o):
        return self._cmp(o, lambda a, b: a > b)

    def __ge__(self, o):
        return self._cmp(o, lambda a, b: a >= b)

    def __bool__(self):
        return Ctx.cur.branch(self.t != 0)

    def __index__(self):
        return Ctx.cur.concretise(self.t)

    __int__ = __index__

    def __repr__(self):
        return f"SymInt({self.t})"

    def __str__(self):
        return f"<{self.t}>"

    def __format__(self, spec):
        return str(self)


def _mul(a, b):
    a = z3.simplify(a)
    b = z3.simplify(b)
    if z3.is_int_value(a) or z3.is_int_value(b):
        return a * b
    # symbolic x symbolic: allowed (identical term appears on all sides of the VCs that
    # use it); the solver may answer unknown, which is reported as inconclusive.
    return a * b


def _const_divisor(z):
    z = z3.simplify(z)
    if not z3.is_int_value(z):
        v = Ctx.cur.concretise(z)
        z = z3.IntVal(v)
    if z.as_long() == 0:
        raise ZeroDivisionError("integer modulo by zero")
    return z


def sym(x):
    """Wrap a Python int/bool constant so that it never meets a symbolic value by hash."""
    if isinstance(x, bool):
        return SymBool(z3.BoolVal(x))
    if isinstance(x, int):
        return SymInt(z3.IntVal(x))
    return x


class Profile:
    """Records /repo code objects entered (functions 'encoded') during one path."""

    def __init__(self):
        self.seen = set()

    def __enter__(self):
        def prof(frame, event, arg):
            if event == "call":
                co = frame.f_code
                fn = co.co_filename
                if fn.startswith(REPO_PREFIX):
                    self.seen.add(fn[len(REPO_PREFIX):].replace("lsst/daf/relation/", "") + ":" + co.co_qualname)

        sys.setprofile(prof)
        return self

    def __exit__(self, *a):
        sys.setprofile(None)


class Result:
    def __init__(self):
        self.paths = 0
        self.queries = 0
        self.solver_s = 0.0
        self.obligations = 0
        self.discharged = 0
        self.inconclusive = 0
        self.cex = []  # dicts
        self.complete = True
        self.reached = 0  # paths that produced at least one obligation
        self.functions = set()
        self.notes = []
        self.coverage_checked = None
        self.skipped = None  # reason when the harness declared the shape outside the model
        self.rechecked = 0  # final validity queries re-decided by a second solver (cvc5)
        self.recheck_agree = 0
        self.recheck_unknown = 0
        self.recheck_s = 0.0

    def as_dict(self):
        d = dict(self.__dict__)
        d["functions"] = sorted(self.functions)
        return d


_RECHECK_RATE = int(os.environ.get("VERIF_RECHECK_RATE", "0") or 0)
_SEQ = [0]  # unsat answers seen by this worker process: every _RECHECK_RATE-th one is re-decided
RECHECK = {"second-solver (cvc5) re-decided": 0, "second-solver agrees (unsat)": 0, "second-solver unknown/error (no weight)": 0}


def second_solver(smt2, timeout_ms=20000):
    """Decide an SMT-LIB2 dump (z3's to_smt2) with the cvc5 wheel; returns "sat" / "unsat" / "unknown" / "error: ..."."""
    try:
        import cvc5
    except ImportError:
        return "unavailable"
    try:
        slv = cvc5.Solver()
        slv.setOption("tlimit-per", str(timeout_ms))
        slv.setLogic("ALL")
        ip = cvc5.InputParser(slv)
        ip.setStringInput(cvc5.InputLanguage.SMT_LIB_2_6, smt2, "vc")
        sm = ip.getSymbolManager()
        verdict = "unknown"
        while True:
            cmd = ip.nextCommand()
            if cmd.isNull():
                break
            out = str(cmd.invoke(slv, sm)).strip()
            if out in ("sat", "unsat", "unknown"):
                verdict = out
            elif "error" in out.lower():
                return "error: " + out[:200]
        return verdict
    except Exception as e:  # noqa: BLE001 - an unusable second opinion is no opinion
        return f"error: {type(e).__name__}: {e}"[:200]


def _recheck(ctx, negated, res, label):
    """Second opinion on a validity query z3 answered `unsat`: a systematic sample (every VERIF_RECHECK_RATE-th unsat
    answer of a worker process) is dumped with Solver.to_smt2() and re-decided by cvc5.  `sat` there is a harness error (the two solvers
    disagree about the encoding), `unknown` / errors are counted and carry no weight."""
    _SEQ[0] += 1
    if _SEQ[0] % _RECHECK_RATE:
        return
    s2 = z3.Solver()
    s2.add(ctx.solver.assertions())
    s2.add(negated)
    txt = s2.to_smt2()
    t = time.time()
    v = second_solver(txt)
    res.recheck_s += time.time() - t
    res.rechecked += 1
    RECHECK["second-solver (cvc5) re-decided"] += 1
    RECHECK["second-solver agrees (unsat)" if v == "unsat" else "second-solver unknown/error (no weight)"] += (v != "sat")
    if v == "unsat":
        res.recheck_agree += 1
    elif v == "sat":
        raise HarnessError(f"second solver (cvc5) finds a model for a query z3 answered unsat: {label}")
    else:
        res.recheck_unknown += 1


class Skip(BaseException):
    """Raised by a harness: this shape (or path) is outside the model / not applicable."""


def model_values(model, vars_):
    out = {}
    for name, v in vars_.items():
        val = model.eval(v, model_completion=True)
        if z3.is_int_value(val):
            out[name] = val.as_long()
        elif z3.is_true(val):
            out[name] = True
        elif z3.is_false(val):
            out[name] = False
        else:
            out[name] = str(val)
    return out


def explore(fn, max_paths=4000, timeout_ms=30000, max_cex=3, wall_s=600, coverage=True, profile=True):
    """Run harness `fn(ctx)` on every feasible path.

    fn returns a list of obligations ``(label, cond, info)`` (cond: z3 Bool / SymBool / bool),
    each decided under the path condition.  A `sat` answer becomes a counterexample entry
    ``{"label", "model", "info", "path"}``.
    """
    res = Result()
    trace = []
    t0 = time.time()
    pcs = []
    base_assumptions = None
    while True:
        ctx = Ctx(trace, timeout_ms)
        Ctx.cur = ctx
        obs = None
        try:
            if profile and res.paths == 0:
                with Profile() as p:
                    try:
                        with time_limit(PATH_LIMIT):
                            obs = fn(ctx)
                    finally:
                        pass
                res.functions |= p.seen
            else:
                with time_limit(PATH_LIMIT):
                    obs = fn(ctx)
        except PathTimeout:
            # a library call on this path did not return (an iterable that never ends, say): observed behaviour, replayed like any other
            obs = [(f"the path comes back within {PATH_LIMIT} s", False, {"timeout_s": PATH_LIMIT})]
        except PathAbort:
            obs = None
        except BudgetExceeded as e:
            res.complete = False
            res.inconclusive += 1
            res.notes.append(f"budget: {e}")
            obs = None
        except Skip as e:
            if res.skipped is None:
                res.skipped = str(e)
            obs = None
        finally:
            sys.setprofile(None)
        res.paths += 1
        if base_assumptions is None:
            base_assumptions = list(ctx.assumptions)
        if coverage:
            pcs.append(z3.And(*ctx.pc) if ctx.pc else z3.BoolVal(True))
            pcs.extend(ctx.excluded)
        if obs:
            res.reached += 1
            for ob in obs:
                label, cond = ob[0], ob[1]
                info = ob[2] if len(ob) > 2 else None
                res.obligations += 1
                c = z3.simplify(_zb(cond))
                if z3.is_true(c):
                    res.discharged += 1
                    continue
                r = ctx.check(z3.Not(c))
                if r == z3.unsat:
                    res.discharged += 1
                    if _RECHECK_RATE:
                        _recheck(ctx, z3.Not(c), res, label)
                elif r == z3.sat:
                    if len(res.cex) < max_cex:
                        m = ctx.solver.model()
                        res.cex.append(
                            {"label": label, "model": model_values(m, ctx.vars), "info": info, "path": res.paths}
                        )
                else:
                    res.inconclusive += 1
                    res.notes.append(f"unknown: {label}")
        res.queries += ctx.queries
        res.solver_s += ctx.solver_time
        # backtrack
        while trace and not (trace[-1][0] is True and trace[-1][1]):
            trace.pop()
        if not trace:
            break
        trace[-1][0] = False
        trace[-1][1] = False
        if len(res.cex) >= max_cex:
            res.complete = False
            res.notes.append("stopped after max_cex counterexamples")
            break
        if res.paths >= max_paths or time.time() - t0 > wall_s:
            res.complete = False
            res.inconclusive += 1
            res.notes.append(f"path/time budget ({res.paths} paths, {time.time()-t0:.0f}s)")
            break
    if coverage and res.complete and res.skipped is None and len(pcs) <= 400:
        s = z3.Solver()
        s.set("timeout", timeout_ms)
        for a in base_assumptions or []:
            s.add(a)
        s.add(z3.Not(z3.Or(*pcs)))
        t = time.time()
        r = s.check()
        res.queries += 1
        res.solver_s += time.time() - t
        res.coverage_checked = str(r)
        if r == z3.sat:
            raise HarnessError("explored paths do not cover the input box: " + str(s.model()))
    Ctx.cur = None
    return res
