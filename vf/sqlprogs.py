"""Program space and common harness pieces for the SQL-engine checks (C02, C08, C11, C17)."""
from __future__ import annotations

import z3

from . import common, relmodel, sqlmodel, templates
from .prog import Env, IllTyped, build, cols_of, fmt, ops_of, pyeval
from .relmodel import Slot, Tab

LEAVES = {"X": ("a", "b", "v"), "Y": ("a", "b", "v"), "Z": ("a", "d"), "I": (),
          # P and Q have the same columns, created in different orders; the tags a and i collide in small hash tables, so
          # the two frozensets iterate in different orders (UNION is positional)
          "P": ("a", "i"), "Q": ("i", "a")}  # I: the engine's join-identity relation
# W: a leaf whose table - and payload.columns_available - offers a column (b) that the relation itself does not have
LEAVES["Wx"] = ("a", "d")
TABLE_EXTRA = {"Wx": ("b",)}
LEAFCOLS = dict(LEAVES)
from . import prog as _prog
_prog.DECLARED_COLS.update({k: LEAVES[k] for k in TABLE_EXTRA})


def table_cols(name):
    """Columns of the database table behind a leaf (the relation's columns plus what else its payload offers)."""
    return tuple(LEAVES[name]) + tuple(TABLE_EXTRA.get(name, ()))

A, B, V, D = ("ref", "a"), ("ref", "b"), ("ref", "v"), ("ref", "d")

OPS1 = ("dedup", "sort total", "proj -b", "proj -v", "proj a", "sel a>k", "calc d", "sel false", "proj none")
OPS_TOP = ("dedup", "sort total", "proj -b", "proj -a", "sel a>k", "calc e", "slice s:e", "proj none", "sort a")
D3 = ("sort total", "slice s:e", "slice s:", "dedup", "proj -b", "sel a>k", "calc d", "sort -a")


def leaves_in(node, acc=None):
    acc = set() if acc is None else acc
    if node[0] == "leaf":
        acc.add(node[1])
    else:
        for x in node[1:3]:
            if isinstance(x, tuple) and x and x[0] in ("leaf", "calc", "proj", "sel", "dedup", "sort", "slice", "chain",
                                                         "join", "mat", "xfer"):
                leaves_in(x, acc)
    return acc


def _ren(x, suffix):
    if isinstance(x, str) and x.startswith("$"):
        return x + suffix
    if isinstance(x, tuple):
        return tuple(_ren(y, suffix) for y in x)
    return x


def _variants(leaf, labels, depth, hi, suffix):
    """(node, params, cons) for a leaf with up to `depth` operations, parameters renamed with suffix."""
    out = [(("leaf", leaf), {}, [])]
    for d in range(1, depth + 1):
        for labs, node, p in templates.unary_sequences(("leaf", leaf), LEAFCOLS, d, "std", slice_hi=hi, labels=labels):
            out.append((_ren(node, suffix), {k + suffix: v for k, v in p.params.items()},
                        [[a + suffix, b + suffix] for a, b in p.cons]))
    return out


def unary_programs(tier, hi):
    out = []
    X = ("leaf", "X")
    for d in (1, 2):
        for labs, node, p in templates.unary_sequences(X, LEAFCOLS, d, "std" if tier == "quick" else "full", slice_hi=hi):
            out.append((node, p.params, p.cons))
    for labs, node, p in templates.unary_sequences(X, LEAFCOLS, 3, "std", slice_hi=hi, labels=D3):
        out.append((node, p.params, p.cons))
    # projections that drop exactly what was calculated last (the calculation is elided, the projection may vanish with it)
    for labs, node, p in templates.unary_sequences(X, LEAFCOLS, 3, "std", slice_hi=hi, labels=("calc d", "calc e", "proj -e", "proj -d", "sel a>k", "dedup")):
        if ("proj -e" in labs or "proj -d" in labs) and (node, p.params, p.cons) not in out:
            out.append((node, p.params, p.cons))
    if tier == "thorough":
        for labs, node, p in templates.unary_sequences(X, LEAFCOLS, 4, "std", slice_hi=hi,
                                                       labels=("sort total", "slice s:e", "dedup", "proj -b", "sel a>k")):
            out.append((node, p.params, p.cons))
    return out


def binary_programs(tier, hi):
    out = []
    lhs = _variants("X", OPS1, 1, hi, "l") + [
        (("slice", ("sort", ("leaf", "X"), ((A, True), (B, False), (V, True))), "$sl", "$el"), {"$sl": [0, hi], "$el": [0, hi]}, [["$sl", "$el"]])]
    rhs_join = _variants("Z", ("dedup", "sort total", "sel a>k", "proj a", "proj none"), 1, hi, "r") + \
        _variants("Y", ("proj -b", "proj a", "proj -v", "dedup", "sel a>k", "proj none"), 1, hi, "r") + [
        (("slice", ("sort", ("leaf", "Z"), ((A, False), (D, True))), "$sr", "$er"), {"$sr": [0, hi], "$er": [0, hi]}, [["$sr", "$er"]]),
        (("proj", ("dedup", ("leaf", "Y")), ("a",)), {}, []),
        (("dedup", ("proj", ("leaf", "Y"), ("a", "v"))), {}, []),
        # the EXISTS idiom: a possibly empty zero-column relation with at most one row
        (("dedup", ("proj", ("leaf", "Y"), ())), {}, []),
        (("dedup", ("proj", ("sel", ("leaf", "Y"), ("gt", A, ("lit", "$kr"))), ())), {"$kr": [None, None]}, []),
    ]
    rhs_chain = _variants("Y", OPS1, 1, hi, "r") + [
        (("slice", ("sort", ("leaf", "Y"), ((A, True), (B, False), (V, True))), "$sr", "$er"), {"$sr": [0, hi], "$er": [0, hi]}, [["$sr", "$er"]])]
    preds = [None, ("lt", B, D), ("plit", False)]
    tops = [None] + list(OPS_TOP)

    TOPS2 = (("dedup", "proj -b"), ("dedup", "proj a"), ("dedup", "proj -v"), ("proj -b", "dedup"), ("dedup", "sort total"),
             ("sort total", "slice s:e"), ("sel a>k", "dedup"), ("dedup", "sel a>k"), ("sort total", "dedup"), ("calc e", "dedup"))

    def tops2_of(node, params, cons):
        for l1, l2 in TOPS2:
            try:
                for _, n2, p2 in templates.unary_sequences(node, LEAFCOLS, 1, "std", slice_hi=hi, labels=(l1,)):
                    n2 = (n2[0], node) + tuple(_ren(x, "t") for x in n2[2:])
                    for _, n3, p3 in templates.unary_sequences(n2, LEAFCOLS, 1, "std", slice_hi=hi, labels=(l2,)):
                        n3 = (n3[0], n2) + tuple(_ren(x, "u") for x in n3[2:])
                        yield (n3, {**params, **{k + "t": v for k, v in p2.params.items()}, **{k + "u": v for k, v in p3.params.items()}},
                               cons + [[a + "t", b + "t"] for a, b in p2.cons] + [[a + "u", b + "u"] for a, b in p3.cons])
            except IllTyped:
                continue

    def tops_of(node, params, cons):
        yield node, params, cons
        if node[1][0] == "leaf" and node[2][0] == "leaf" or (node[0] == "chain" and len(ops_of(node)) <= 2):
            yield from tops2_of(node, params, cons)
        try:
            for labs, n2, p2 in templates.unary_sequences(node, LEAFCOLS, 1, "std", slice_hi=hi, labels=OPS_TOP):
                n2 = (n2[0], node) + tuple(_ren(x, "t") for x in n2[2:])
                yield n2, {**params, **{k + "t": v for k, v in p2.params.items()}}, cons + [[a + "t", b + "t"] for a, b in p2.cons]
        except IllTyped:
            return

    for ln, lp, lc in lhs:
        for rn, rp, rc in rhs_join:
            for pred in preds:
                if pred is not None and (ln[0] != "leaf" and tier == "quick"):
                    continue
                node = ("join", ln, rn, pred)
                try:
                    cols_of(node, LEAFCOLS)
                except IllTyped:
                    continue
                for n3, p3, c3 in tops_of(node, {**lp, **rp}, lc + rc):
                    out.append((n3, p3, c3))
        for rn, rp, rc in rhs_chain:
            node = ("chain", ln, rn)
            try:
                cols_of(node, LEAFCOLS)
            except IllTyped:
                continue
            for n3, p3, c3 in tops_of(node, {**lp, **rp}, lc + rc):
                out.append((n3, p3, c3))
    return out


def nested_programs(tier, hi):
    X, Y, Z = ("leaf", "X"), ("leaf", "Y"), ("leaf", "Z")
    W = ("proj", Y, ("a", "b"))
    progs = [
        ("join", ("join", X, Z, None), W, None),
        ("join", X, ("join", W, Z, None), None),
        ("join", ("chain", X, Y), Z, None),
        ("join", Z, ("chain", X, Y), None),
        ("chain", ("join", X, Z, None), ("join", Y, Z, None)),
        ("chain", ("chain", X, Y), X),
        ("chain", X, ("chain", Y, X)),
        ("dedup", ("chain", ("dedup", ("chain", X, Y)), Y)),
        ("join", ("dedup", ("chain", X, Y)), Z, None),
        ("join", ("proj", ("join", X, Z, None), ("a", "d")), W, None),
        ("chain", ("proj", ("join", X, Z, None), ("a", "b", "v")), Y),
        ("join", ("sel", ("join", X, Z, None), ("gt", A, ("lit", "$k"))), W, ("lt", B, D)),
    ]
    I = ("leaf", "I")
    K = ("gt", A, ("lit", "$k"))
    progs += [("join", I, X, K), ("join", X, I, K), ("join", X, I, None), ("join", I, ("sel", X, K), ("lt", A, B)),
              ("dedup", ("join", ("proj", X, ("a",)), I, K)), ("join", ("join", X, I, K), Z, None), ("join", X, I, ("plit", False)),
              ("chain", ("join", X, I, K), Y)]
    CH = ("chain", X, Y)
    TOT = ((A, True), (B, False), (V, True))
    NEG = ((("neg", A), True), (A, True), (B, True), (V, False))
    progs += [("slice", ("proj", ("sort", CH, TOT), ("a", "v")), 0, 2), ("proj", ("sort", CH, TOT), ("a",)), ("slice", ("sort", CH, NEG), 1, 3),
              ("sort", CH, NEG), ("dedup", ("proj", ("slice", ("sort", CH, TOT), 0, 3), ("a",))), ("slice", ("sort", ("dedup", CH), NEG), 0, 2),
              ("proj", ("slice", ("sort", CH, ((("add", A, B), True),) + TOT), 1, 4), ("b", "v"))]
    HB = ("calc", ("proj", ("sort", X, ((B, True), (A, True), (V, True))), ("a", "v")), "b", ("neg", A))
    progs += [("slice", HB, 0, 1), ("slice", HB, 1, 2), HB, ("calc", ("proj", ("slice", ("sort", X, ((B, True), (A, True), (V, True))), 0, 1), ("a", "v")), "b", ("neg", A)),
              ("dedup", ("calc", ("proj", ("dedup", X), ("a",)), "b", ("add", A, A))), ("sel", ("calc", ("proj", X, ("a", "v")), "b", ("neg", A)), ("gt", B, ("lit", "$k")))]
    E0 = ("slice", X, 0, 0)
    progs += [("join", E0, Z, None), ("join", Z, E0, None), ("chain", E0, Y), ("chain", Y, E0), ("dedup", E0), ("sel", E0, K),
              ("join", ("slice", ("proj", X, ("a", "b")), None, 0), Z, ("lt", B, D)), ("dedup", ("join", ("slice", ("slice", X, 0, 2), 0, 0), Z, None)),
              ("chain", ("slice", ("dedup", X), 0, 0), Y), ("join", ("dedup", E0), Z, None)]
    P, Q = ("leaf", "P"), ("leaf", "Q")
    progs += [("chain", P, Q), ("chain", Q, P), ("dedup", ("chain", P, Q)), ("chain", ("sel", P, K), Q),
              ("proj", ("chain", P, Q), ("a",)), ("chain", ("proj", X, ("a",)), ("proj", Q, ("a",))), ("join", ("chain", P, Q), Z, None)]
    # one leaf (one payload object) used in two branches of the same tree: compiling one branch must not leak into the other
    SZ = ("sel", Z, ("gt", D, ("lit", "$k")))
    JX = ("proj", ("join", X, SZ, None), ("a", "b", "v"))
    progs += [("chain", JX, X), ("chain", X, JX), ("chain", ("proj", ("join", SZ, X, None), ("a", "b", "v")), ("sel", X, ("lt", A, B))),
              ("chain", ("proj", ("join", ("sel", X, K), Z, None), ("a", "b", "v")), X), ("dedup", ("chain", JX, ("chain", X, Y))),
              ("chain", ("proj", ("join", ("join", X, Z, None), ("sel", W, ("lt", A, B)), None), ("a", "b", "v")), X),
              ("chain", ("proj", ("join", X, Z, ("lt", B, D)), ("a", "b", "v")), X)]
    # sorts composed with sorts (stable composition), with and without a slice in between, same columns in other directions / precedence
    TOT2 = ((V, False), (B, True), (A, False))
    TOT3 = ((A, False), (B, False), (V, True))
    S1 = ("sort", X, ((B, True), (V, False)))
    progs += [("slice", ("sort", S1, ((A, True),)), 0, 1), ("slice", ("sort", S1, ((A, False),)), 1, 2), ("sort", S1, ((A, True),)),
              ("slice", ("sort", ("sel", S1, K), ((A, True),)), 0, 1), ("slice", ("sort", ("dedup", S1), ((A, False),)), 0, 1),
              ("sort", ("slice", ("sort", X, TOT), 0, 1), TOT2), ("sort", ("slice", ("sort", X, TOT), 1, 2), TOT3),
              ("slice", ("sort", ("slice", ("sort", X, TOT), 0, 2), TOT3), 0, 1), ("slice", ("sort", ("sort", X, TOT), TOT2), 0, 1),
              ("slice", ("sort", ("sort", X, TOT), TOT3), 1, 2), ("sort", ("sort", X, ((A, True),)), ((B, False), (V, True))),
              ("slice", ("sort", ("sort", X, ((A, True),)), ((B, False), (V, True))), 0, 1),
              ("slice", ("sort", ("sort", ("sort", X, ((V, True),)), ((B, True),)), ((A, False),)), 0, 1)]
    # a window cut from a sort on a column that the SELECT's own projection hides, sorted again on what is still visible
    HS = ("slice", ("proj", ("sort", X, ((B, True), (A, True), (V, True))), ("a", "v")), 0, 2)
    progs += [("sort", HS, ((A, False), (V, True))), ("slice", ("sort", HS, ((A, False), (V, True))), 0, 1), ("sort", ("dedup", HS), ((V, False), (A, True))),
              ("sort", ("slice", ("proj", ("sort", X, ((B, False), (A, True), (V, True))), ("a", "v")), 1, 3), ((A, True),))]
    # a later sort on an expression that is not injective in the columns it reads: the earlier sort still breaks its ties
    SUM = (("add", A, B), True)
    progs += [("sort", ("sort", X, TOT), (SUM,)), ("slice", ("sort", ("sort", X, TOT), (SUM,)), 0, 2), ("slice", ("sort", ("sort", X, TOT), (SUM, (V, False))), 1, 3),
              ("slice", ("proj", ("sort", ("sort", X, TOT), (SUM,)), ("a", "v")), 0, 1), ("slice", ("sort", ("sort", X, TOT3), ((("mul", A, ("lit", 0)), True),)), 0, 2)]
    # a sorted and sliced chain with one more operation on top (each must see exactly the window of the sorted union)
    for win in ((0, 1), (1, 2), (0, 2)):
        sl = ("slice", ("sort", CH, TOT), *win)
        progs += [("sel", sl, K), ("calc", sl, "d", ("neg", A)), ("dedup", sl), ("proj", sl, ("a", "b")), ("sort", sl, TOT3)]
    # a calculation that reuses the tag of a hidden column other than the sort's
    progs += [("calc", ("proj", ("sort", X, ((B, True),)), ("a",)), "v", ("neg", A)),
              ("slice", ("calc", ("proj", ("sort", X, ((B, True), (A, True), (V, True))), ("a", "b")), "v", ("neg", A)), 0, 1),
              ("calc", ("proj", ("sort", ("sel", X, K), ((V, False),)), ("a",)), "b", ("add", A, A))]
    # a join partner whose payload offers a column (b) it does not expose: every output column comes from an operand exposing it
    Wd = ("leaf", "Wx")
    progs += [("join", X, Wd, None), ("join", Wd, X, None), ("join", X, ("sel", Wd, K), ("lt", B, D)), ("dedup", ("join", ("proj", X, ("a", "b")), Wd, None)),
              ("chain", ("proj", ("join", X, Wd, None), ("a", "b", "v")), Y), ("join", Wd, W, None), ("join", ("join", X, Z, None), Wd, None),
              ("sel", ("join", Wd, X, None), ("lt", B, D)), ("slice", ("sort", ("join", X, Wd, None), ((A, True), (B, True), (V, True), (D, False))), 0, 2)]
    out = [(p, {"$k": [None, None]} if "$k" in repr(p) else {}, []) for p in progs]
    W2 = ("slice", ("sort", X, TOT), "$s1", "$e1")
    for top in (TOT2, TOT3):
        out.append((("sort", W2, top), {"$s1": [0, hi], "$e1": [0, hi]}, [["$s1", "$e1"]]))
        out.append((("slice", ("sort", W2, top), "$s2", "$e2"), {"$s1": [0, hi], "$e1": [0, hi], "$s2": [0, hi], "$e2": [0, hi]}, [["$s1", "$e1"], ["$s2", "$e2"]]))
    return out


def setup_leaves(ctx, env, prog, n):
    env.sql_mode = True
    for name in sorted(leaves_in(prog)):
        if name == "I":
            env.add_special_leaf("I", "identity", "sq")
            continue
        tab, _ = relmodel.leaf_symbolic(name, table_cols(name), n, ordered=False)
        common.register_table(ctx, tab)
        env.add_sql_leaf(name, LEAVES[name], n, table=tab, extra=TABLE_EXTRA.get(name, ()))


def history(env, prog):
    """Earlier life of the same engine object: the same operation sequence over leaves of the same names and columns that
    were bound to *other* tables then (equal-but-not-identical relations: leaves compare by engine, name and columns) is
    built, inspected and compiled.  Anything remembered per equal relation is remembered before the tree under test exists;
    SQL that still mentions an `old_*` table afterwards is not the translation of the tree under test."""
    import sqlalchemy as sa
    from lsst.daf.relation import sql
    from .prog import build

    env.history = False  # this check's own, stronger history replaces the generic one of prog.build
    saved = (dict(env.leaves), dict(env.tables), env.metadata)
    env.leaves.clear()
    env.tables.clear()
    md = sa.MetaData()
    try:
        for name in sorted(leaves_in(prog)):
            if name == "I":
                env.add_special_leaf("I", "identity", "sq")
                continue
            tags = [env.tags[c] for c in LEAVES[name]]
            ca = {env.tags[c]: sa.Column(c, sa.Integer) for c in table_cols(name)}
            tbl = sa.Table("old_" + name, md, *ca.values())
            env.leaves[name] = env.engines["sq"].make_leaf(frozenset(tags), payload=sql.Payload(from_clause=tbl, columns_available=ca),
                                                           name=name)
        try:
            d = build(prog, env)
            _ = (d.min_rows, d.max_rows, d.columns, str(d))
            env.engines["sq"].to_executable(d)
        except Exception:  # noqa: BLE001 - the earlier tree is not the subject
            pass
    finally:
        env.leaves.clear()
        env.leaves.update(saved[0])
        env.tables.clear()
        env.tables.update(saved[1])
        env.metadata = saved[2]


def concrete_env(prog, bind):
    env = Env()
    env.sql_mode = True
    env.bind = dict(bind)
    for name in sorted(leaves_in(prog)):
        if name == "I":
            env.add_special_leaf("I", "identity", "sq")
            continue
        env.add_sql_leaf(name, LEAVES[name], 0, table=Tab([], table_cols(name), False), extra=TABLE_EXTRA.get(name, ()))
    history(env, prog)
    return env


def strip_ignored(tab):
    if "IGNORED" in tab.cols:
        return Tab([Slot(s.p, s.pos, {k: v for k, v in s.v.items() if k != "IGNORED"}) for s in tab.slots],
                   tab.cols - {"IGNORED"}, tab.ordered)
    return tab


def concrete_tab(rows, cols):
    return Tab([Slot(z3.BoolVal(True), None, {c: z3.IntVal(r[c]) for c in cols}) for r in rows], cols, False)


def model_rows(tab):
    """Concrete evaluation of a model table (all terms ground): list of dict in position order if ordered."""
    out = []
    for s in tab.slots:
        p = z3.simplify(s.p)
        if z3.is_true(p):
            pos = z3.simplify(s.pos).as_long() if tab.ordered and s.pos is not None else 0
            out.append((pos, {k: z3.simplify(v).as_long() for k, v in s.v.items()}))
        elif not z3.is_false(p):
            raise sqlmodel.OutsideModel("non-ground presence in concrete evaluation")
    if tab.ordered:
        out.sort(key=lambda x: x[0])
    return [r for _, r in out]


def run_real_sql(prog, bind, rows, reverse=False):
    """Build with ordinary ints, compile with the real engine, execute on SQLite. -> (rel, list of dict)"""
    env = concrete_env(prog, bind)
    rel = build(prog, env)
    ex = env.engines["sq"].to_executable(rel)
    got = sqlmodel.run_sqlite(ex, env.metadata, {k: v for k, v in rows.items() if k in env.leaves and k != "I"}, reverse=reverse)
    got = [{k: v for k, v in r.items() if k != "IGNORED"} for r in got]
    return rel, ex, got, env


BATTERY = {
    "X": [{"a": 1, "b": 1, "v": 5}, {"a": 1, "b": 2, "v": 5}, {"a": 2, "b": 1, "v": 7}, {"a": 1, "b": 1, "v": 5}],
    "Y": [{"a": 1, "b": 1, "v": 5}, {"a": 2, "b": 2, "v": 7}, {"a": 3, "b": 1, "v": 9}],
    "Z": [{"a": 1, "d": 2}, {"a": 2, "d": 1}, {"a": 1, "d": 3}, {"a": 4, "d": 0}],
    "Wx": [{"a": 1, "d": 2, "b": 8}, {"a": 2, "d": 1, "b": 9}, {"a": 1, "d": 3, "b": 7}],
    "P": [{"a": 1, "i": 10}, {"a": 2, "i": 20}],
    "Q": [{"a": 3, "i": 30}, {"a": 1, "i": 10}],
}


def battery_bind(params):
    out = {}
    for name, (lo, hi) in params.items():
        stem = name[1]
        out[name] = {"s": 1, "e": 3, "k": 1}.get(stem, 1)
    return out


def validate_model(prog, params):
    """Model-vs-SQLite on a fixed non-trivial assignment.  -> None if they agree, else a description."""
    bind = battery_bind(params)
    try:
        rel, ex, got, env = run_real_sql(prog, bind, BATTERY)
    except Exception as e:  # noqa: BLE001 - construction/compile/database failure: not this function's business
        return None
    db = {k: concrete_tab(BATTERY[k], table_cols(k)) for k in env.leaves if k != "I"}
    try:
        mt = strip_ignored(sqlmodel.select(ex, db))
        mrows = model_rows(mt)
    except (sqlmodel.OutsideModel, sqlmodel.SqlInvalid):
        return None
    if common.canon(mrows) != common.canon(got):
        return f"model {mrows} vs sqlite {got} for {fmt(prog)}"
    if mt.ordered and mrows != got and _order_total(mrows):
        return f"model order {mrows} vs sqlite order {got} for {fmt(prog)}"
    return None


def _order_total(rows):
    return len({tuple(sorted(r.items())) for r in rows}) == len(rows)


def determinate_env(prog, env):
    """`determinate` for a program over an environment that already exists (any leaves)."""
    from .prog import sem_seq
    from .symx import Skip

    try:
        sem_seq(prog, env)
    except Skip:
        return False
    return True


def determinate(prog, bind):
    """The program has a reference result (DESIGN 2.4): no slice acts on an order SQL does not define."""
    from .prog import sem_seq
    from .symx import Skip

    env = concrete_env(prog, {k: 0 for k in bind})
    try:
        sem_seq(prog, env)
    except Skip:
        return False
    return True
