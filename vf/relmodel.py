"""relmodel - bounded relational algebra over z3 terms (the oracle).  DESIGN.md 2.3.

Written from the property statements; shares no code with the library.  A table is a
list of slots ``(p, pos, v)``: presence flag, position in the output order (dense rank
among present rows, or None for unordered tables) and values keyed by column *name*.
"""
from __future__ import annotations

import z3


def b2i(b):
    return z3.If(b, 1, 0)


def zsum(xs):
    xs = list(xs)
    if not xs:
        return z3.IntVal(0)
    if len(xs) == 1:
        return xs[0]
    return z3.Sum(xs)


def zand(xs):
    xs = list(xs)
    return z3.And(*xs) if xs else z3.BoolVal(True)


def zor(xs):
    xs = list(xs)
    return z3.Or(*xs) if xs else z3.BoolVal(False)


class Slot:
    __slots__ = ("p", "pos", "v")

    def __init__(self, p, pos, v):
        self.p, self.pos, self.v = p, pos, v


class Tab:
    """slots + column names + whether positions are meaningful."""

    __slots__ = ("slots", "cols", "ordered", "det", "dropped", "sliced", "okeys")

    def __init__(self, slots, cols, ordered=True, det=True, dropped=False):
        self.slots = list(slots)
        self.cols = frozenset(cols)
        self.ordered = ordered
        # SQL-mode bookkeeping (DESIGN 2.4 determinacy): `det` = the order is a function of the data
        # (total up to identical rows); `dropped` = a projection removed a column since the sort.
        self.det = det
        self.okeys = frozenset()  # bare columns among the terms of the (stably composed) sorts that define the current order
        self.dropped = dropped
        self.sliced = False  # a slice was applied since the sort (later non-total sorts cannot merge with it)

    def count(self):
        return zsum(b2i(s.p) for s in self.slots)


def leaf_concrete(rows, cols):
    """All rows present, pos = index.  rows: list of dict name -> z3 term."""
    return Tab([Slot(z3.BoolVal(True), z3.IntVal(i), dict(r)) for i, r in enumerate(rows)], cols, True)


def leaf_symbolic(name, cols, n, ordered=True, perm=False):
    """n slots with symbolic presence and values; returns (Tab, constraints).

    ordered & not perm : position = number of present slots with a smaller index
    ordered & perm     : positions are symbolic, an arbitrary permutation of 0..count-1
    """
    cols = sorted(cols)
    ps = [z3.Bool(f"{name}.p{i}") for i in range(n)]
    slots = []
    cons = []
    for i in range(n):
        v = {c: z3.Int(f"{name}.{c}{i}") for c in cols}
        if not ordered:
            pos = None
        elif perm:
            pos = z3.Int(f"{name}.pos{i}")
        else:
            pos = zsum(b2i(ps[j]) for j in range(i))
        slots.append(Slot(ps[i], pos, v))
    t = Tab(slots, cols, ordered)
    if ordered and perm:
        cnt = t.count()
        for i, s in enumerate(slots):
            cons.append(z3.Implies(s.p, z3.And(s.pos >= 0, s.pos < cnt)))
            for u in slots[i + 1:]:
                cons.append(z3.Implies(z3.And(s.p, u.p), s.pos != u.pos))
    return t, cons


def _rerank(slots):
    out = []
    for i, s in enumerate(slots):
        newpos = zsum(b2i(z3.And(t.p, t.pos < s.pos)) for j, t in enumerate(slots) if j != i)
        out.append(Slot(s.p, newpos, s.v))
    return out


def veq(x, y):
    return zand(x[c] == y[c] for c in x)


def calc(t, tag, f):
    return Tab([Slot(s.p, s.pos, {**s.v, tag: f(s.v)}) for s in t.slots], t.cols | {tag}, t.ordered)


def project(t, cols):
    cols = frozenset(cols)
    return Tab([Slot(s.p, s.pos, {c: s.v[c] for c in cols}) for s in t.slots], cols, t.ordered)


def select(t, pred):
    sl = [Slot(z3.And(s.p, pred(s.v)), s.pos, s.v) for s in t.slots]
    return Tab(_rerank(sl) if t.ordered else sl, t.cols, t.ordered)


def dedup(t):
    out = []
    for i, s in enumerate(t.slots):
        if t.ordered:
            dup = zor(z3.And(u.p, veq(u.v, s.v), u.pos < s.pos) for j, u in enumerate(t.slots) if j != i)
        else:
            dup = zor(z3.And(u.p, veq(u.v, s.v)) for u in t.slots[:i])
        out.append(Slot(z3.And(s.p, z3.Not(dup)), s.pos, s.v))
    return Tab(_rerank(out) if t.ordered else out, t.cols, t.ordered)


def sort(t, terms):
    """Stable multi-key sort.  terms: list of (f(row)->term, ascending).  Unordered input is
    given an arbitrary (index) base order: legitimate only when the keys order rows totally
    up to identical rows, which callers check with `sort_is_total`."""
    slots = t.slots

    def before(i, j):
        a, b = slots[i], slots[j]
        r = (a.pos < b.pos) if t.ordered else z3.BoolVal(i < j)
        for f, asc in reversed(list(terms)):
            x, y = f(a.v), f(b.v)
            r = z3.Or((x < y) if asc else (x > y), z3.And(x == y, r))
        return r

    out = []
    for j, s in enumerate(slots):
        newpos = zsum(b2i(z3.And(u.p, before(i, j))) for i, u in enumerate(slots) if i != j)
        out.append(Slot(s.p, newpos, s.v))
    return Tab(out, t.cols, True)


def slice_(t, start, stop):
    assert t.ordered
    out = []
    for s in t.slots:
        c = s.pos >= start
        if stop is not None:
            c = z3.And(c, s.pos < stop)
        out.append(Slot(z3.And(s.p, c), s.pos - start, s.v))
    return Tab(out, t.cols, True)


def reverse(t):
    """Rows in the opposite order (an unordered table stays unordered)."""
    if not t.ordered:
        return t
    n = t.count()
    return Tab([Slot(s.p, n - 1 - s.pos, s.v) for s in t.slots], t.cols, True)


def chain(a, b):
    if a.ordered and b.ordered:
        na = a.count()
        return Tab(a.slots + [Slot(s.p, s.pos + na, s.v) for s in b.slots], a.cols, True)
    return Tab([Slot(s.p, None, s.v) for s in a.slots + b.slots], a.cols, False)


def join(a, b, common, pred=None, prefer="l"):
    """Natural join on `common` plus predicate; unordered result.  Columns exposed by both
    operands and not in `common` are taken from the `prefer` side ('l' or 'r')."""
    out = []
    for x in a.slots:
        for y in b.slots:
            v = {**y.v, **x.v} if prefer == "l" else {**x.v, **y.v}
            p = z3.And(x.p, y.p, *[x.v[c] == y.v[c] for c in common])
            if pred is not None:
                p = z3.And(p, pred(v))
            out.append(Slot(p, None, v))
    return Tab(out, a.cols | b.cols, False)


def index_order(t):
    """Give an unordered table the order of its slot indices (for count-only reasoning)."""
    if t.ordered:
        return t
    ps = [s.p for s in t.slots]
    return Tab([Slot(s.p, zsum(b2i(ps[j]) for j in range(i)), s.v) for i, s in enumerate(t.slots)], t.cols, True)


def unordered(t):
    return Tab([Slot(s.p, None, s.v) for s in t.slots], t.cols, False)


# ---------------------------------------------------------------- comparisons


def seq_eq(a, b):
    """Same rows at the same positions."""
    if a.cols != b.cols:
        return z3.BoolVal(False)
    cs = [a.count() == b.count()]
    for s in a.slots:
        cs.append(z3.Implies(s.p, zor(z3.And(u.p, u.pos == s.pos, veq(s.v, u.v)) for u in b.slots)))
    return z3.And(*cs)


def mset_eq(a, b):
    if a.cols != b.cols:
        return z3.BoolVal(False)
    cs = []
    for r in a.slots + b.slots:
        ca = zsum(b2i(z3.And(x.p, veq(x.v, r.v))) for x in a.slots)
        cb = zsum(b2i(z3.And(x.p, veq(x.v, r.v))) for x in b.slots)
        cs.append(z3.Implies(r.p, ca == cb))
    return zand(cs)


def seq_equals_list(t, got):
    """t (ordered) equals the concrete-length list `got` of dict name -> z3 term."""
    cs = [t.count() == len(got)]
    for g in got:
        if frozenset(g) != t.cols:
            return z3.BoolVal(False)
    for s in t.slots:
        cs.append(z3.Implies(s.p, zor(z3.And(s.pos == k, veq(s.v, g)) for k, g in enumerate(got))))
    return z3.And(*cs)


def mset_equals_list(t, got):
    for g in got:
        if frozenset(g) != t.cols:
            return z3.BoolVal(False)
    cs = [t.count() == len(got)]
    for s in t.slots:
        ca = zsum(b2i(z3.And(x.p, veq(x.v, s.v))) for x in t.slots)
        cb = zsum(b2i(veq(g, s.v)) for g in got)
        cs.append(z3.Implies(s.p, ca == cb))
    return z3.And(*cs)


def sort_is_total(t, terms):
    """Rows tie on all sort keys only when identical (so any base order gives the same list)."""
    cs = []
    for i, a in enumerate(t.slots):
        for b in t.slots[i + 1:]:
            tie = zand(f(a.v) == f(b.v) for f, _ in terms)
            cs.append(z3.Implies(z3.And(a.p, b.p, tie), veq(a.v, b.v)))
    return zand(cs)
