"""Check driver: distributes shapes over a process pool, aggregates verdicts, matches
known findings, writes evidence and replay files, sets the exit code.  DESIGN.md 2.6/2.8."""
from __future__ import annotations

import hashlib
import importlib
import json
import multiprocessing as mp
import os
import sys
import time
import traceback

VERIF = os.path.dirname(os.path.dirname(os.path.abspath(__file__)))
OUT = os.path.join(VERIF, "out")
_SCRATCH = os.environ.get("VERIF_REPO", "/repo").rstrip("/") != "/repo"
# evidence is only ever written for runs against /repo itself; sensitivity runs against a scratch copy go elsewhere
EVID = os.path.join(OUT, "scratch_evidence") if _SCRATCH else os.path.join(VERIF, "evidence")
KNOWN = os.path.join(VERIF, "known_findings.json")

HOLDS, VIOLATION, UNDECIDED, INCONCLUSIVE, REJECTED, HARNESS = (
    "holds", "violation", "undecided", "inconclusive", "rejected", "harness-error")


def load_known(pid):
    try:
        items = json.load(open(KNOWN))
    except FileNotFoundError:
        return {}
    return {e["site"]: e for e in items if e.get("property") == pid and e.get("status") == "known"}


class ShapeTimeout(BaseException):
    """Raised by SIGALRM inside a worker: a work item that does not come back gets no verdict instead of hanging the check."""


def _worker(args):
    modname, shape, tier = args
    mod = importlib.import_module(modname)
    from . import symx
    t0 = time.time()
    before = dict(symx.RECHECK)
    import signal

    def _alarm(signum, frame):
        raise ShapeTimeout()

    limit = int(os.environ.get("VERIF_SHAPE_TIMEOUT", "1500" if tier == "quick" else "5400"))
    try:
        signal.signal(signal.SIGALRM, _alarm)
        signal.setitimer(signal.ITIMER_REAL, limit)
    except ValueError:  # not in the main thread of the worker
        pass
    try:
        r = mod.run_shape(shape, tier)
    except ShapeTimeout:
        # the library (or the harness) did not come back - e.g. an iterable that never ends: no verdict for this work item
        r = {"status": INCONCLUSIVE, "detail": f"work item exceeded the wall-clock limit of {limit} s (no verdict)", "inconclusive": 1}
    except BaseException as e:  # noqa: BLE001 - a harness crash must be visible, never a pass
        r = {"status": HARNESS, "detail": f"{type(e).__name__}: {e}", "trace": traceback.format_exc()[-1500:]}
    finally:
        try:
            signal.setitimer(signal.ITIMER_REAL, 0)
        except ValueError:
            pass
    r.setdefault("shape", shape if isinstance(shape, (str, int)) else None)
    r["wall_s"] = round(time.time() - t0, 3)
    delta = {k: v - before.get(k, 0) for k, v in symx.RECHECK.items() if v - before.get(k, 0)}
    if delta:
        r["counters"] = {**(r.get("counters") or {}), **delta}
    return r


def stable_hash(obj):
    return hashlib.sha1(json.dumps(obj, sort_keys=True, default=str).encode()).hexdigest()[:12]


def run(modname, tier, jobs=None):
    mod = importlib.import_module(modname)
    pid = mod.PID
    seed = int(os.environ.get("VERIF_SEED", "0"))
    t0 = time.time()
    shapes = mod.shapes(tier, seed)
    if hasattr(mod, "cost"):
        shapes = sorted(shapes, key=lambda sh: -mod.cost(sh))
    jobs = jobs or int(os.environ.get("VERIF_JOBS", "0")) or min(16, os.cpu_count() or 4)
    results = []
    if jobs == 1 or len(shapes) < 4:
        for s in shapes:
            results.append(_worker((modname, s, tier)))
    else:
        ctx = mp.get_context("fork")
        with ctx.Pool(jobs, maxtasksperchild=200) as pool:
            chunk = 1 if hasattr(mod, "cost") else max(1, min(16, len(shapes) // (jobs * 8)))
            for r in pool.imap_unordered(_worker, [(modname, s, tier) for s in shapes], chunksize=chunk):
                results.append(r)
    results.sort(key=lambda r: json.dumps(r.get("shape"), default=str))
    return finish(mod, tier, seed, shapes, results, time.time() - t0)


def finish(mod, tier, seed, shapes, results, wall):
    pid = mod.PID
    known = load_known(pid)
    buckets = {}
    tot = dict(paths=0, queries=0, solver_s=0.0, obligations=0, discharged=0, inconclusive=0)
    functions = set()
    undecided_reasons = {}
    samples = []
    new_violations = []
    known_hit = {}
    harness_errors = []
    distinct = set()
    counters = {}
    for r in results:
        for ck, cv in (r.get("counters") or {}).items():
            counters[ck] = counters.get(ck, 0) + cv
        st = r.get("status", HARNESS)
        buckets[st] = buckets.get(st, 0) + 1
        for k in tot:
            tot[k] += r.get(k, 0) or 0
        functions |= set(r.get("functions", ()))
        if st in (UNDECIDED, REJECTED, INCONCLUSIVE):
            reason = (r.get("detail") or "?")[:80]
            undecided_reasons[f"{st}: {reason}"] = undecided_reasons.get(f"{st}: {reason}", 0) + 1
        if st == HOLDS and (r.get("queries", 0) or r.get("paths", 0)):
            distinct.add(stable_hash(r.get("shape")))
        if st == HOLDS and len(samples) < 6 and r.get("sample") and (r.get("queries", 0) > 0):
            samples.append(r["sample"])
        if st == HOLDS and r.get("skipped") and r.get("obligations"):
            counters["shapes decided on some paths only (other paths outside the model / rejected)"] = counters.get(
                "shapes decided on some paths only (other paths outside the model / rejected)", 0) + 1
        if st == HARNESS:
            harness_errors.append(r)
        for v in r.get("violations", ()):
            site = v["site"]
            if site in known:
                known_hit.setdefault(site, v)
            else:
                new_violations.append(v)
    os.makedirs(EVID, exist_ok=True)
    os.makedirs(os.path.join(OUT, "scratch_replay" if _SCRATCH else "replay"), exist_ok=True)
    lines = []
    for site in sorted(known_hit):
        lines.append(f"KNOWN-FINDING: property={pid} {site}")
    seen_sites = set()
    vio_files = []
    for v in new_violations:
        if v["site"] in seen_sites:
            continue
        seen_sites.add(v["site"])
        path = os.path.join(OUT, "scratch_replay" if _SCRATCH else "replay", f"{pid}-{stable_hash(v['site'])}.json")
        v["property"] = pid
        v["command"] = f"./run.sh {pid} --replay {path}"
        with open(path, "w") as f:
            json.dump(v, f, indent=1, default=str)
        vio_files.append(path)
        lines.append(f"VIOLATION property={pid} replay={path}")
        lines.append(f"  site: {v['site']}")
        lines.append(f"  what: {v.get('summary', '')[:300]}")
    if not samples:
        for r in results:
            if r.get("sample"):
                samples.append(r["sample"])
            if len(samples) >= 4:
                break
    desc = mod.describe(tier) if hasattr(mod, "describe") else {}
    level = getattr(mod, "LEVEL", "other")
    cov = {
        "explanation": desc.get("explanation", "bounded symbolic verification: every path of the real code within "
                                "the stated bounds, each verification condition decided by z3"),
        "evaluations": len(results),
        "distinct_nontrivial": len(distinct),
        "rule": desc.get("rule", "one evaluation = one program shape explored symbolically; distinct and non-trivial = "
                         "distinct shapes decided 'holds' with at least one solver query"),
        "samples": samples or [{"note": "no decided shape produced a sample"}],
        "exhaustive": bool(desc.get("exhaustive", True)) and not buckets.get(INCONCLUSIVE) and not buckets.get(HARNESS),
        "shapes": len(shapes),
        "buckets": buckets,
        "not_decided_reasons": dict(sorted(undecided_reasons.items(), key=lambda kv: -kv[1])[:25]),
        "paths": tot["paths"],
        "obligations": tot["obligations"],
        "discharged": tot["discharged"],
        "inconclusive_queries": tot["inconclusive"],
        "solver_queries": tot["queries"],
        "solver_s": round(tot["solver_s"], 2),
        "functions_encoded": sorted(functions),
        "bounds": desc.get("bounds", {}),
        "outside_claim": desc.get("outside", []),
        "known_findings_hit": sorted(known_hit),
        "new_violation_sites": sorted(seen_sites),
        "harness_errors": [h.get("detail") for h in harness_errors][:5],
    }
    if level == "translation_validation":
        cov["programs"] = max(1, buckets.get(HOLDS, 0) + len(new_violations) + sum(1 for _ in known_hit))
        cov["disagreements_checked"] = len(new_violations) + len(known_hit)
    cov.update(desc.get("extra", {}))
    if counters:
        cov["counters"] = counters
    ev = {
        "property_id": pid,
        "tier": tier,
        "seed": seed,
        "level": level,
        "coverage": cov,
        "assumptions": desc.get("assumptions", []),
        "wall_s": round(wall, 2),
        "violations": len(seen_sites),
    }
    with open(os.path.join(EVID, f"{pid}.json"), "w") as f:
        json.dump(ev, f, indent=1, default=str)
    for ln in lines:
        print(ln)
    if os.environ.get("VERIF_PROFILE"):
        for r in sorted(results, key=lambda r: -r.get("wall_s", 0))[:int(os.environ["VERIF_PROFILE"])]:
            print("  slow:", r.get("wall_s"), r.get("paths"), r.get("status"), json.dumps(r.get("shape"), default=str)[:200])
    print(f"[{pid}/{tier}] shapes={len(shapes)} buckets={buckets} paths={tot['paths']} obligations={tot['obligations']} "
          f"discharged={tot['discharged']} queries={tot['queries']} solver_s={tot['solver_s']:.1f} wall={wall:.1f}s")
    if harness_errors:
        for h in harness_errors[:5]:
            print("HARNESS-ERROR", pid, h.get("shape"), h.get("detail"))
            if h.get("trace"):
                print(h["trace"])
        return 2
    return 1 if seen_sites else 0


def replay(modname, path):
    mod = importlib.import_module(modname)
    v = json.load(open(path))
    ok, msg = mod.replay(v)
    print(msg)
    if ok:
        print(f"VIOLATION property={mod.PID} replay={path}")
        return 1
    print("replay does not reproduce on this tree")
    return 0


def main(argv=None):
    argv = list(sys.argv[1:] if argv is None else argv)
    pid = argv.pop(0)
    tier = os.environ.get("VERIF_TIER", "quick")
    rp = None
    jobs = None
    while argv:
        a = argv.pop(0)
        if a == "--tier":
            tier = argv.pop(0)
        elif a == "--replay":
            rp = argv.pop(0)
        elif a == "--jobs":
            jobs = int(argv.pop(0))
    modname = f"vf.checks.{pid.lower()}"
    # second opinion (cvc5) on a systematic sample (every n-th per worker process) of the validity queries z3 answers unsat: 1 in 50 (quick) / 1 in 10 (thorough)
    os.environ.setdefault("VERIF_RECHECK_RATE", "50" if tier == "quick" else "10")
    if rp:
        return replay(modname, rp)
    return run(modname, tier, jobs)


if __name__ == "__main__":
    sys.exit(main())
