"""C15 - transfer/materialize simplifications keep content; locked trees are inviolate."""
from __future__ import annotations

import itertools

import z3

from .. import common, meprogs, relmodel, templates
from ..driver import HOLDS, INCONCLUSIVE, UNDECIDED, VIOLATION
from ..prog import (Env, IllFormed, IllTyped, add_abstract_leaf, build, cols_of, fmt, from_jsonable, ops_of, pyeval, pytree, sem_seq, sem_tree,
                    to_jsonable)
from ..symx import Skip, explore
from . import c14

PID = "C15"
LEVEL = "other"
ALPHA = ("sel a>k", "proj -b", "to it1", "to it2", "to sq", "mat")
FINALS = ("sel a>k", "proj -b", "dedup", "sort a", "calc d=a+b")
N = 2


def _seqs(tier):
    acts = meprogs.actions("std")
    maxlen = 4 if tier == "quick" else 5
    out = []
    for st in ("X", "S"):
        frontier = [("leaf", st)]
        for d in range(1, maxlen + 1):
            nxt = []
            for node in frontier:
                for lab in ALPHA + (("dedup", "slice s:e") if tier == "thorough" and d <= 3 else ("slice s:e",) if d == 2 else ()):
                    n2 = c14._apply(acts, lab, node, None, d)
                    if n2 is not None:
                        nxt.append(n2)
            out += nxt
            frontier = nxt
    return out


def shapes(tier, seed):
    acts = meprogs.actions("std")
    content = [p for p in _seqs(tier) if any(o in ("xfer", "mat") for o in ops_of(p))]
    Xl, Sl = ("leaf", "X"), ("leaf", "S")
    for base in (Sl, ("mat", ("xfer", Xl, "sq"), "md0"), Xl, ("mat", ("xfer", Sl, "it1"), "md0")):
        for op in (("dedup", base), ("proj", ("dedup", base), ("a", "b")), ("slice", ("sort", ("dedup", base), ((meprogs.A, True), (meprogs.B, True), (meprogs.C, True))), 0, 1)):
            content += [("mat", op, "md1"), ("xfer", ("mat", op, "md1"), "it2"), ("mat", ("mat", op, "md1"), "md2")]
    out = [{"kind": "content", "progs": content[i:i + 20]} for i in range(0, len(content), 20)]
    # locked-node identity under every later factory call
    ident = []
    optsets = meprogs.option_sets(full=(tier == "thorough"))
    for base in [("leaf", "X"), ("leaf", "S")] + [p for p in _seqs(tier) if len(ops_of(p)) <= 3]:
        for lab in FINALS:
            for o in optsets:
                n = c14._apply(acts, lab, base, o, 7)
                if n is not None:
                    ident.append((base, n))
        for other in ("Y", "T", "U"):
            ident.append((base, ("join", base, ("leaf", other), None, (True, True))))
            ident.append((base, ("chain", base, ("leaf", other))))
        ident.append((base, ("mat", base)))
        for e in meprogs.ENGINES:
            ident.append((base, ("xfer", base, e)))
    out += [{"kind": "identity", "pairs": ident[i:i + 60]} for i in range(0, len(ident), 60)]
    # the same for SQL-side trees that an earlier Processor.process returned: their materializations carry payloads (and may sit
    # bare, without the engine's SELECT wrapper, below joins / chains); later factory calls must keep those very objects
    K1, K2 = ("gt", meprogs.A, ("lit", "$k1")), ("lt", meprogs.A, ("lit", "$k2"))
    Xs = ("xfer", Xl, "sq")
    pid = []
    for b in (("proc", ("mat", ("sel", Sl, K1), "ms")), ("proc", ("mat", ("xfer", ("sel", Xl, K1), "sq"), "mx")),
              ("proc", ("join", ("mat", ("sel", Sl, K1), "ms"), Xs, None)), ("proc", ("chain", ("mat", ("sel", Sl, K1), "ms"), Xs))):
        for n in (("join", b, Xs, None), ("join", Xs, b, None), ("join", b, ("leaf", "T"), K2), ("sel", b, K2), ("proj", b, ("a",)),
                  ("dedup", b), ("sort", b, ((meprogs.A, True),)), ("slice", b, 0, 1), ("chain", b, b), ("chain", ("sel", Sl, K2), b),
                  ("mat", b, "again"), ("xfer", b, "it1"), ("calc", b, "d", ("add", meprogs.A, meprogs.B)),
                  ("sel", ("join", b, ("leaf", "T"), None), K2), ("join", ("dedup", b), Xs, None)):
            pid.append((b, n))
    out += [{"kind": "identity", "pairs": pid[i:i + 15], "payloads": True} for i in range(0, len(pid), 15)]
    # materializations of statically trivial relations (empty windows, doomed leaves, the join identity) between transfers are locked
    # like any other: a round trip across them is not undone and later calls keep the node
    triv = []
    for inner in (("slice", Xl, 0, 0), ("sel", Xl, ("plit", False)), ("dedup", ("proj", ("slice", Xl, 0, 1), ())), ("slice", ("xfer", Sl, "it1"), 2, 2)):
        for there, back in (("it2", "it1"), ("sq", "it1")):
            b = ("mat", ("xfer", inner, there), "mt")
            for n in (("xfer", b, back), ("xfer", ("xfer", b, "it2" if there == "sq" else "sq"), back), ("sel", b, K2, (back, True, True, False)),
                      ("dedup", b, (back, True, True, False)), ("proj", b, (), (back, True, False, False)), ("mat", b, "again"), ("chain", b, b)):
                triv.append((b, n))
    out += [{"kind": "identity", "pairs": triv[i:i + 20]} for i in range(0, len(triv), 20)]
    # the same with explicitly named materializations after an equal-but-distinct twin tree has been built
    twins = [_named(p) for b, p in ident if "mat" in repr(p) and ("xfer" in repr(p) or p[-1])][::2]
    twins = [(p[1], p) for p in twins]
    out += [{"kind": "identity", "pairs": twins[i:i + 60], "twin": True} for i in range(0, len(twins), 60)]
    named = [_named(p) for p in content if "mat" in ops_of(p)]
    out += [{"kind": "content", "progs": named[i:i + 20], "twin": True} for i in range(0, len(named), 20)]
    # factory calls on trees that were processed before (their transfers / materializations carry payloads): markers rebuilt by
    # backtracking must not carry a payload over to another upstream tree
    X = ("leaf", "X")
    K1 = ("gt", meprogs.A, ("lit", "$k1"))
    pp = []
    for pre in (("mat", ("sel", X, K1), "mp"), ("sel", X, K1)):
        for mid in (("xfer", pre, "it2"), ("proj", ("xfer", pre, "it2"), ("a", "b")), ("mat", ("xfer", pre, "it2"), "mq"),
                    ("xfer", ("dedup", ("xfer", pre, "it2")), "it1")):
            for lab in ("sel a>k", "proj a", "sort -b,a", "dedup"):
                for o in (("it1", True, False, False), ("it1", True, True, False), ("it1", True, False, True), ("it2", True, True, False)):
                    n = c14._apply(acts, lab, mid, o, 5)
                    if n is not None:
                        pp.append(n)
    out += [{"kind": "processed", "processed": pp[i:i + 12]} for i in range(0, len(pp), 12)]
    out.append({"kind": "twin-engines"})
    return out


def make_env(ctx, symbolic=True, rows=None):
    env = Env(symbolic=symbolic)
    for name, (eng, cols) in meprogs.LEAVES.items():
        tab = None
        if ctx is not None and name in ("X", "S"):
            tab = common.sym_table(ctx, name, cols, N, ordered=(eng != "sq"))
        elif ctx is None and rows is not None and eng == "sq":
            from ..sqlprogs import concrete_tab
            tab = concrete_tab(rows.get(name, []), cols)  # "proc" nodes evaluate SQL-side materializations during replays
        add_abstract_leaf(env, name, cols, eng, tab)
    return env


def locked_nodes(rel, out=None, seen=None):
    from lsst.daf.relation import BinaryOperationRelation, MarkerRelation, UnaryOperationRelation

    out = {} if out is None else out
    seen = set() if seen is None else seen
    if id(rel) in seen:
        return out
    seen.add(id(rel))
    from lsst.daf.relation import LeafRelation, Materialization
    if isinstance(rel, (LeafRelation, Materialization)):  # "locked relations (leaves and materializations)" - not rel.is_locked
        out.setdefault(getattr(rel, "name", None), []).append(rel)
    if isinstance(rel, UnaryOperationRelation):
        locked_nodes(rel.target, out, seen)
    elif isinstance(rel, BinaryOperationRelation):
        locked_nodes(rel.lhs, out, seen)
        locked_nodes(rel.rhs, out, seen)
    elif isinstance(rel, MarkerRelation):
        locked_nodes(rel.target, out, seen)
        if hasattr(rel, "skip_to"):
            locked_nodes(rel.skip_to, out, seen)
    return out


def count_nodes(rel, cls, seen=None):
    from lsst.daf.relation import BinaryOperationRelation, MarkerRelation, UnaryOperationRelation

    seen = set() if seen is None else seen
    if id(rel) in seen:
        return 0
    seen.add(id(rel))
    n = 1 if isinstance(rel, cls) else 0
    if isinstance(rel, UnaryOperationRelation):
        n += count_nodes(rel.target, cls, seen)
    elif isinstance(rel, BinaryOperationRelation):
        n += count_nodes(rel.lhs, cls, seen) + count_nodes(rel.rhs, cls, seen)
    elif isinstance(rel, MarkerRelation):
        n += count_nodes(rel.target, cls, seen)
        if hasattr(rel, "skip_to"):
            n += count_nodes(rel.skip_to, cls, seen)
    return n


def _requested_engine(prog):
    return c14 and __import__("vf.checks.c20", fromlist=["_static_engine"])._static_engine(prog)


def content_problems(prog, env, rel):
    """Structural part of the content claim: requested engine, no superfluous materialization."""
    from lsst.daf.relation import LeafRelation, Materialization

    want = _requested_engine(prog)
    if str(rel.engine) != want:
        return f"result lives in {rel.engine}, requested {want}"
    # materializing a leaf or an already materialized relation adds no new materialization
    if prog[0] == "mat":
        inner = build(prog[1], env)
        core = inner
        while hasattr(core, "skip_to") and core.target is core.skip_to:  # SQL Select wrappers that record no operation
            core = core.skip_to
        if isinstance(core, (LeafRelation, Materialization)):
            if count_nodes(rel, Materialization) != count_nodes(inner, Materialization):
                return "materializing a leaf / materialization added a new Materialization node"
    return None


def preserved_problem(before, after):
    """Every locked node of the input tree is still part of the returned tree (same object)."""
    la = [n for nodes in locked_nodes(after).values() for n in nodes]
    for name, nodes in locked_nodes(before).items():
        for n in nodes:
            if not any(n is k for k in la):
                return f"locked relation {name!r} of the input tree is no longer part of the returned tree"
    return None


def _named(node, depth=0):
    """Give every materialization an explicit, position-derived name (so that separately built trees compare equal)."""
    if not isinstance(node, tuple) or not node or node[0] == "leaf":
        return node
    if node[0] == "mat":
        return ("mat", _named(node[1], depth + 1), f"m{depth}")
    return tuple(_named(x, depth + 1) if isinstance(x, tuple) and x and isinstance(x[0], str) and x[0] in (
        "leaf", "calc", "proj", "sel", "dedup", "sort", "slice", "chain", "join", "mat", "xfer") else x for x in node)


def _fresh(node):
    return tuple(_fresh(x) for x in node) if isinstance(node, tuple) else node


def _prefixes(prog):
    """The chain of sub-programs of a unary-chain program, innermost first."""
    out = []
    n = prog
    while n[0] != "leaf":
        out.append(n)
        n = n[1]
    out.append(n)
    return out[::-1]


def identity_problem(before, after, env):
    lb = locked_nodes(before)
    for name, nodes in list(lb.items()):
        pass
    la = locked_nodes(after)
    known = {}
    for name, nodes in lb.items():
        known[name] = nodes
    for name, leaf in env.leaves.items():
        bare = leaf.skip_to if hasattr(leaf, "skip_to") else leaf
        known.setdefault(name, []).append(bare)
    for name, nodes in la.items():
        if name in known:
            for n in nodes:
                if not any(n is k for k in known[name]):
                    return f"locked relation {name!r} appears in the result as a different object (rewritten or rebuilt)"
    return None


def run_shape(shape, tier):
    from lsst.daf.relation import ColumnError, EngineError, RelationalAlgebraError

    if shape["kind"] == "processed":
        from . import c03
        return c03.run_processed_shape(shape)
    if shape["kind"] == "twin-engines":
        return run_twin_engines()
    tot = {"paths": 0, "queries": 0, "solver_s": 0.0, "obligations": 0, "discharged": 0, "inconclusive": 0}
    functions = set()
    vios = []
    sample = None
    items = [(None, p) for p in shape["progs"]] if shape["kind"] == "content" else shape["pairs"]
    for base, prog in items:
        params, cons = meprogs.params_for(prog)
        info = {}

        def h(ctx, base=base, prog=prog, params=params, cons=cons, info=info):
            env = make_env(ctx)
            templates.declare(ctx, env, params, cons)
            memo = {}
            try:
                if shape.get("twin"):
                    build(_fresh(prog), env, {})  # an equal but distinct tree built first (value vs identity)
                before = build(base, env, memo) if base is not None else None
                rel = build(prog, env, memo)
            except (ColumnError, EngineError, RelationalAlgebraError) as e:
                raise Skip(f"rejected: {type(e).__name__}")
            except Exception as e:  # noqa: BLE001
                return [("factory call returns or raises a documented class", False, {"exc": f"{type(e).__name__}: {e}"[:160]})]
            info.setdefault("tree", str(rel))
            obs = []
            if shape["kind"] == "identity":
                p = identity_problem(before, rel, env)
                obs.append(("locked nodes are identical objects", p is None, {"problem": p, "tree": str(rel)}))
                if shape.get("payloads"):
                    from lsst.daf.relation import Materialization
                    lost = [n.name for nodes in locked_nodes(rel).values() for n in nodes
                            if isinstance(n, Materialization) and n.payload is None and n.name in ("ms", "mx")]
                    obs.append(("materializations of the processed input keep their payloads", not lost, {"lost": lost, "tree": str(rel)}))
                if prog[0] != "join":  # a join may legitimately drop a join-identity operand
                    p3 = preserved_problem(before, rel)
                    obs.append(("locked nodes of the input stay in the tree", p3 is None, {"problem": p3, "tree": str(rel)}))
                return obs
            steps = [build(q, env, memo) for q in _prefixes(prog)]
            for prev, nxt, q in zip(steps, steps[1:], _prefixes(prog)[1:]):
                p3 = preserved_problem(prev, nxt)
                if p3:
                    obs.append(("locked nodes of the input stay in the tree", False, {"problem": p3, "step": fmt(q)}))
                    break
            p = content_problems(prog, env, rel)
            obs.append(("requested engine / no superfluous materialization", p is None, {"problem": p, "tree": str(rel)}))
            p2 = identity_problem(rel, rel, env)
            obs.append(("leaves are the identical objects", p2 is None, {"problem": p2}))
            ref = sem_seq(prog, env)
            try:
                got = sem_tree(rel, env)
            except IllFormed as e:
                return obs + [("returned tree is well-formed", False, {"why": str(e), "tree": str(rel)})]
            through_sql = "sq" in repr(prog) or "'S'" in repr(prog)
            if through_sql or not (ref.ordered and got.ordered):
                obs.append(("content (multiset)", relmodel.mset_eq(relmodel.unordered(got), relmodel.unordered(ref)), {"tree": str(rel)}))
            else:
                obs.append(("content (sequence)", relmodel.seq_eq(got, ref), {"tree": str(rel)}))
            return obs

        res = explore(h, max_paths=300, wall_s=60, profile=(sample is None))
        for k in tot:
            tot[k] += getattr(res, k)
        functions |= res.functions
        if sample is None and res.obligations:
            sample = {"kind": shape["kind"], "program": fmt(prog), "tree": info.get("tree"), "paths": res.paths}
        for cx in res.cex[:1]:
            m = cx["model"]
            bind = templates.bind_concrete(params, m)
            rows = {n: common.rows_from_model(m, n, meprogs.LEAFCOLS[n], N) for n in ("X", "S")}
            fails, symptom, detail = concrete_check(shape["kind"], base, prog, rows, bind)
            if not fails:
                return {"status": "harness-error", "detail": f"counterexample does not reproduce: {fmt(prog)} {bind} {rows} {cx['label']} {cx['info']}", **tot}
            vios.append({"site": f"{shape['kind']}:{c14._sig(prog)}/{symptom}", "summary": f"{fmt(prog)} bind={bind} rows={rows}: {symptom} {detail}",
                         "replay": {"kind": shape["kind"], "base": to_jsonable(base), "prog": to_jsonable(prog), "rows": rows, "bind": bind,
                                    "symptom": symptom}})
    out = dict(tot)
    out["functions"] = sorted(functions)
    out["shape"] = f"{shape['kind']}: {fmt(items[0][1])} (+{len(items) - 1} more)"
    out["sample"] = sample or {"note": "all programs of this batch were rejected"}
    if vios:
        out["status"], out["violations"] = VIOLATION, vios
    elif tot["inconclusive"]:
        out["status"], out["detail"] = INCONCLUSIVE, "budget"
    else:
        out["status"] = HOLDS
    return out


def twin_engine_problems():
    """Distinct engine objects that share a name (the default for engines created without one) are different engines:
    transfers between them are real transfers and end in the requested engine object."""
    from lsst.daf.relation import ColumnExpression, Materialization, Transfer, iteration
    from ..prog import Tag

    a = Tag("a")
    first, second, third = iteration.Engine(), iteration.Engine(), iteration.Engine(name="third")
    leaf = first.make_leaf({a}, iteration.RowSequence([{a: 1}, {a: 2}]), name="L")
    p = ColumnExpression.reference(a).gt(ColumnExpression.literal(0))
    problems = []

    def chk(label, rel, engine, must_hold=None, must_not_be=None):
        if rel.engine is not engine:
            problems.append(f"{label}: result lives in another engine object than the requested one")
        if must_hold is not None and count_nodes(rel, must_hold) == 0:
            problems.append(f"{label}: no {must_hold.__name__} node in {rel}")
        if must_not_be is not None and rel is must_not_be:
            problems.append(f"{label}: returned the untransferred relation itself")

    moved = leaf.transferred_to(second)
    chk("leaf.transferred_to(second)", moved, second, Transfer, leaf)
    chk("leaf.transferred_to(third).transferred_to(second)", leaf.transferred_to(third).transferred_to(second), second, Transfer, leaf)
    chk("moved.materialized('m')", moved.materialized("m"), second, Materialization)
    chk("selection preferring second, transfer=True", leaf.with_rows_satisfying(p, preferred_engine=second, transfer=True), second, Transfer)
    if moved.transferred_to(first) is not leaf:
        problems.append("round trip first -> second -> first does not return the leaf")
    if leaf.transferred_to(first) is not leaf:
        problems.append("transfer to the own engine does not return the relation itself")
    return problems


def run_twin_engines():
    problems = twin_engine_problems()
    out = {"paths": 1, "queries": 0, "solver_s": 0.0, "obligations": 6, "discharged": 6 - min(6, len(problems)), "inconclusive": 0,
           "functions": ["_engine.py:Engine.transfer", "_transfer.py:Transfer.simplify", "_engine.py:Engine.materialize"],
           "shape": "twin-engines: two iteration engines with the default name", "sample": {"kind": "twin-engines", "problems": problems[:3]}}
    if problems:
        out["status"] = VIOLATION
        out["violations"] = [{"site": "twin-engines/" + problems[0].split(":")[0][:60], "summary": "; ".join(problems)[:300],
                              "replay": {"kind": "twin-engines", "base": None, "prog": None}}]
    else:
        out["status"] = HOLDS
    return out


def concrete_check(kind, base, prog, rows, bind):
    from lsst.daf.relation import ColumnError, EngineError, RelationalAlgebraError

    env = make_env(None, symbolic=False, rows=rows)
    env.bind = dict(bind)
    memo = {}
    try:
        if "'m0'" in repr(prog) or "'m1'" in repr(prog) or "'m2'" in repr(prog) or "'m3'" in repr(prog):
            build(_fresh(prog), env, {})
        before = build(base, env, memo) if base is not None else None
        rel = build(prog, env, memo)
    except (ColumnError, EngineError, RelationalAlgebraError):
        return False, "rejected", None
    except Exception as e:  # noqa: BLE001
        return True, f"raises:{type(e).__name__}", str(e)[:120]
    if kind == "identity":
        p = identity_problem(before, rel, env)
        if p:
            return True, "locked-node-not-identical", p
        if prog[0] != "join":
            p3 = preserved_problem(before, rel)
            if p3:
                return True, "locked-node-dropped", p3
        if base is not None and base[0] == "proc":
            from lsst.daf.relation import Materialization
            lost = [n.name for nodes in locked_nodes(rel).values() for n in nodes
                    if isinstance(n, Materialization) and n.payload is None and n.name in ("ms", "mx")]
            if lost:
                return True, "payload-lost", f"materializations {lost} of the processed input have no payload in {rel}"
        return False, "", None
    steps = [build(q, env, memo) for q in _prefixes(prog)]
    for prev, nxt in zip(steps, steps[1:]):
        p3 = preserved_problem(prev, nxt)
        if p3:
            return True, "locked-node-dropped", p3
    p = content_problems(prog, env, rel)
    if p:
        return True, p.split(",")[0][:60], {"tree": str(rel)}
    p2 = identity_problem(rel, rel, env)
    if p2:
        return True, "locked-node-not-identical", p2
    leafrows = {n: rows.get(n, []) for n in meprogs.LEAVES}
    exp = pyeval(prog, leafrows, bind, env.tags)
    from ..prog import tree_problem
    tp = tree_problem(rel)
    if tp:
        return True, "tree-ill-formed", tp[:160]
    try:
        got = pytree(rel, leafrows)
    except Exception as e:  # noqa: BLE001
        return True, f"tree-not-evaluable:{type(e).__name__}", str(e)[:100]
    through_sql = "sq" in repr(prog) or "'S'" in repr(prog)
    same = common.canon(got) == common.canon(exp) if through_sql else got == exp
    if not same:
        return True, "content-differs", {"tree": str(rel), "expected": exp, "observed": got}
    return False, "", None


def replay(v):
    r = v["replay"]
    if r.get("processed"):
        from . import c03
        return c03.replay(v)
    if r.get("kind") == "twin-engines":
        problems = twin_engine_problems()
        return bool(problems), "; ".join(problems)[:300] or "same-name engines behave as distinct engines"
    base = from_jsonable(r["base"]) if r["base"] is not None else None
    prog = from_jsonable(r["prog"])
    if base is not None:
        def rebase(n):
            if n == base:
                return base
            return tuple(rebase(x) for x in n) if isinstance(n, tuple) else n
        prog = rebase(prog)
    fails, symptom, detail = concrete_check(r["kind"], base, prog, r["rows"], r["bind"])
    return fails and symptom == r["symptom"], f"{fmt(prog)}: {symptom} {detail}"


def describe(tier):
    return {
        "explanation": "(content) every sequence of up to 4 (5 thorough) steps over {selection, projection, transfer to each of three engines, "
                       "materialize} from an iteration and a SQL leaf is built through the real API under symx; the result must live in the "
                       "requested engine, materializing a leaf/materialization must add no Materialization node, and z3 decides that the "
                       "relmodel content of the returned tree equals direct evaluation (sequence when no SQL engine is involved, multiset "
                       "otherwise) for all leaf contents within the slot bound.  (identity) on top of every such prefix of length <=3 every "
                       "final factory call (5 unary operations x all preferred-engine option sets, joins, chains, materialize, transfers) is "
                       "issued; every locked node (leaf, materialization) that appears in the returned tree must be the identical object.",
        "bounds": {"slots per leaf": N, "steps": "<=4 quick / <=5 thorough", "final calls": "5 operations x 13 (27 thorough) option sets + binary/marker calls"},
        "outside": ["content under preferred-engine options is C03's subject", "deeper chains"],
        "assumptions": ["leaf and materialization names identify locked nodes (names are unique, C19)"],
        "rule": "one evaluation = one batch of programs (20 content / 60 identity), each explored on all paths",
    }
