"""C06 - static metadata (columns, row bounds, triviality flags) is truthful."""
from __future__ import annotations

import z3

from .. import common, relmodel, sqlmodel, sqlprogs, templates
from ..driver import HOLDS, INCONCLUSIVE, UNDECIDED, VIOLATION
from ..prog import (Env, IllFormed, IllTyped, add_abstract_leaf, build, cols_of, fmt, from_jsonable, ops_of, pyeval, sem_seq, sem_tree,
                    to_jsonable)
from ..symx import Skip, SymInt, explore, zint

PID = "C06"
LEVEL = "other"
LEAVES = {"X": ("a", "b", "c"), "Y": ("a", "b", "c"), "Z": ("a", "d"), "W": (), "Q": ("d", "e")}
SPECIAL = {"I": ("identity", ()), "0": ("doomed", ("a", "b", "c"))}
LEAFCOLS = {**LEAVES, **{k: v[1] for k, v in SPECIAL.items()}}
STD = None


from ..prog import _OPS as _ALL_OPS  # noqa: E402


def _leaves_in(node, acc):
    if node[0] == "leaf":
        acc.add(node[1])
    else:
        for x in node[1:]:
            if isinstance(x, tuple) and x and isinstance(x[0], str) and x[0] in _ALL_OPS:
                _leaves_in(x, acc)
    return acc


def processor_shapes(tier):
    """Zero-column / empty / identity chains evaluated through Processor.process (pruning keyed on max_rows / is_trivial)."""
    X, I, D0 = ("leaf", "X"), ("leaf", "I"), ("leaf", "0")
    K = ("gt", ("ref", "a"), ("lit", "$k1"))
    pX0 = ("proj", X, ())
    progs = [("chain", I, pX0), ("chain", pX0, I), ("chain", ("dedup", pX0), pX0), ("chain", I, I), ("chain", ("dedup", ("proj", ("sel", X, K), ())), pX0),
             ("chain", D0, X), ("chain", X, D0), ("chain", ("sel", X, ("plit", False)), X), ("dedup", ("chain", I, pX0)),
             ("chain", ("chain", I, pX0), I), ("slice", ("chain", pX0, I), 0, 1)]
    # a transfer whose payload (handed over lazily by an earlier process()) is itself a compound iterable, read by a chain: evaluating
    # twice must stay within the static bounds
    lazy = ("proc", ("xfer", ("chain", X, X), "it2"))
    progs += [("chain", lazy, ("xfer", X, "it2")), ("chain", ("xfer", X, "it2"), lazy), ("dedup", ("chain", lazy, ("xfer", ("sel", X, K), "it2"))),
              ("chain", ("chain", lazy, ("xfer", X, "it2")), ("xfer", X, "it2"))]
    return [{"eng": "it1", "prog": p, "params": ({"$k1": [None, None]} if "$k1" in repr(p) else {}), "cons": [], "n": 2, "labels": ["processor"],
             "processor": True} for p in progs]


def run_processor_shape(shape):
    from .. import symproc
    from ..prog import pyeval

    prog = shape["prog"]

    def run(ctx, vals=None):
        env = Env(symbolic=ctx is not None)
        rows = [{c: (ctx.int(f"X.{c}{i}") if ctx is not None else int(vals.get(f"X.{c}{i}", 0))) for c in "abc"} for i in range(shape["n"])]
        env.add_iter_leaf("X", "abc", rows, engine="it1")
        env.add_special_leaf("I", "identity", "it1")
        env.add_special_leaf("0", "doomed", "it1", ("a", "b", "c"))
        if ctx is not None:
            templates.declare(ctx, env, shape["params"], shape["cons"])
        else:
            env.bind = templates.bind_concrete(shape["params"], vals)
        rel = build(prog, env)
        db = symproc.SymDB(env)
        log = []
        out = symproc.make_processor(db, log).process(rel)
        direct = [dict(r) for r in common.take(rel.engine.execute(rel))]
        processed = [dict(r) for r in common.take(out.engine.execute(out))]
        return env, rel, direct, processed, rows

    def h(ctx):
        try:
            env, rel, direct, processed, rows = run(ctx)
        except Exception as e:  # noqa: BLE001
            return [("processes and executes", False, {"exc": f"{type(e).__name__}: {e}"[:160]})]
        ref = sem_seq(prog, env)
        gz = [{t.qualified_name: zint(v) for t, v in r.items()} for r in processed]
        return [("rows of the processed tree == direct evaluation", relmodel.seq_equals_list(ref, gz), {"tree": str(rel)}),
                ("processed row count within [min_rows, max_rows]", (rel.min_rows <= len(processed)) and (rel.max_rows is None or len(processed) <= rel.max_rows), {})]

    res = explore(h, max_paths=1000, wall_s=120)
    out = res.as_dict()
    out["shape"] = {"eng": "processor", "prog": fmt(prog)}
    out["sample"] = {"engine": "iteration + Processor", "program": fmt(prog), "paths": res.paths}
    for cx in res.cex[:1]:
        try:
            env, rel, direct, processed, rows = run(None, cx["model"])
            exp = pyeval(prog, {"X": [{c: int(cx["model"].get(f"X.{c}{i}", 0)) for c in "abc"} for i in range(shape["n"])], "I": [{}], "0": []},
                         env.bind, env.tags)
            got = [{t.qualified_name: v for t, v in r.items()} for r in processed]
            bad = None if got == exp and rel.min_rows <= len(got) else f"processed rows {got} vs direct evaluation {exp} (bounds [{rel.min_rows}, {rel.max_rows}])"
        except Exception as e:  # noqa: BLE001
            bad = f"raises {type(e).__name__}: {e}"[:160]
        if bad is None:
            out["status"], out["detail"] = "harness-error", f"counterexample does not reproduce: {fmt(prog)}"
            return out
        out["status"] = VIOLATION
        out["violations"] = [{"site": f"processor:{'>'.join(ops_of(prog))}/short-cut-changes-result", "summary": f"{fmt(prog)}: {bad}",
                              "replay": {"processor": True, "shape": to_jsonable(shape), "model": cx["model"]}}]
        return out
    out["status"] = INCONCLUSIVE if (res.inconclusive or not res.complete) else HOLDS
    return out


def shared_shapes(tier):
    """A payload-carrying SQL-side node (materialization / transfer of an earlier process()) read by several trees that are compiled
    one after the other: the rows of each must stay within its static bounds (the node's exact bounds come from the leaf)."""
    X = ("leaf", "X")
    K = ("gt", ("ref", "a"), ("lit", "$k1"))
    out = []
    for base in (("proc", ("mat", ("xfer", X, "sq"), "mm")), ("proc", ("xfer", X, "sq")), ("proc", ("mat", ("xfer", ("dedup", X), "sq"), "mm"))):
        for first in (("sel", base, K), ("calc", base, "d", ("add", ("ref", "a"), ("ref", "b"))), ("sel", ("calc", base, "d", ("neg", ("ref", "a"))), K),
                      ("join", ("sel", base, K), ("proc", ("xfer", ("proj", X, ("a",)), "sq")), None)):
            for then in (base, ("dedup", base), ("proj", base, ("a", "b")), ("chain", base, base)):
                out.append({"eng": "sq", "prog": ("seq", first, then), "params": {"$k1": [None, None]}, "cons": [], "n": 2, "labels": ["shared-payload"],
                            "shared": True})
    return out


def run_shared_shape(shape):
    from .. import sqlmodel, symproc
    from ..sqlprogs import strip_ignored, model_rows

    _, first, then = shape["prog"]

    def run(ctx, vals=None):
        env = Env(symbolic=ctx is not None)
        rows = [{c: (ctx.int(f"X.{c}{i}") if ctx is not None else int(vals.get(f"X.{c}{i}", 0))) for c in "abc"} for i in range(shape["n"])]
        env.add_iter_leaf("X", "abc", rows, engine="it1")
        if ctx is not None:
            templates.declare(ctx, env, shape["params"], shape["cons"])
        else:
            env.bind = templates.bind_concrete(shape["params"], vals)
        memo = {}
        res = []
        for prog in (first, then, first):
            rel = build(prog, env, memo)
            ex = env.engines["sq"].to_executable(rel)
            res.append((prog, rel, strip_ignored(sqlmodel.select(ex, env.tables))))
        return env, res

    def h(ctx):
        try:
            env, res = run(ctx)
        except Exception as e:  # noqa: BLE001
            return [("trees over a shared payload compile", False, {"exc": f"{type(e).__name__}: {e}"[:160]})]
        obs = []
        for i, (prog, rel, got) in enumerate(res):
            cnt = relmodel.index_order(got).count()
            hi = rel.max_rows
            obs.append((f"statement {i + 1}: row count within [min_rows, max_rows]", z3.And(cnt >= rel.min_rows, z3.BoolVal(True) if hi is None else cnt <= hi),
                        {"tree": str(rel), "bounds": [rel.min_rows, hi]}))
            obs.append((f"statement {i + 1}: rows == direct evaluation", relmodel.mset_eq(relmodel.unordered(got), relmodel.unordered(sem_seq(prog, env))), {"tree": str(rel)}))
        return obs

    res = explore(h, max_paths=1000, wall_s=120)
    out = res.as_dict()
    out["shape"] = {"eng": "sq (shared payload)", "first": fmt(first), "then": fmt(then)}
    out["sample"] = {"engine": "sql over a processed transfer / materialization", "compiled in turn": [fmt(first), fmt(then), fmt(first)], "paths": res.paths}
    for cx in res.cex[:1]:
        bad = None
        try:
            env, r3 = run(None, cx["model"])
            xrows = [{c: int(cx["model"].get(f"X.{c}{i}", 0)) for c in "abc"} for i in range(shape["n"])]
            for i, (prog, rel, got) in enumerate(r3):
                rows = model_rows(got)
                exp = pyeval(prog, {"X": xrows}, env.bind, env.tags)
                if not (rel.min_rows <= len(rows) and (rel.max_rows is None or len(rows) <= rel.max_rows)) or common.canon(rows) != common.canon(exp):
                    bad = f"statement {i + 1} ({fmt(prog)}): rows {rows}, direct evaluation {exp}, bounds [{rel.min_rows}, {rel.max_rows}]"
                    break
        except Exception as e:  # noqa: BLE001
            bad = f"raises {type(e).__name__}: {e}"[:160]
        if bad is None:
            out["status"], out["detail"] = "harness-error", f"counterexample does not reproduce: {fmt(first)} then {fmt(then)}"
            return out
        out["status"] = VIOLATION
        out["violations"] = [{"site": f"shared-payload:{'>'.join(ops_of(first))} then {'>'.join(ops_of(then))}/rows-outside-bounds-or-differ",
                              "summary": f"compiled in turn {fmt(first)}, {fmt(then)}, {fmt(first)}: {bad}",
                              "replay": {"shared": True, "shape": to_jsonable(shape), "model": cx["model"]}}]
        return out
    out["status"] = INCONCLUSIVE if (res.inconclusive or not res.complete) else HOLDS
    return out


def shapes(tier, seed):
    n = 2 if tier == "quick" else 3
    out = processor_shapes(tier) + shared_shapes(tier)
    depth = 2 if tier == "quick" else 3
    lab3 = ("slice s:e", "slice s:", "dedup", "sel a>k", "sel false", "proj none", "proj -a", "calc d", "sort a")

    def add(eng, node, p, labs, nn=n):
        try:
            cols_of(node, LEAFCOLS)
        except IllTyped:
            return
        out.append({"eng": eng, "prog": node, "params": p.params, "cons": p.cons, "n": nn, "labels": list(labs)})

    for eng in ("it1", "sq"):
        for d in range(1, depth + 1):
            for labs, node, p in templates.unary_sequences(("leaf", "X"), LEAFCOLS, d, "std", slice_hi=None,
                                                           labels=None if d <= 2 else lab3):
                add(eng, node, p, labs)
        for labs, node, p in templates.unary_sequences(("leaf", "W"), LEAFCOLS, 2, "std"):
            add(eng, node, p, ("W",) + labs)
        # binary programs: operands with <=1 op, then <=1 op on top
        ops1 = ("slice s:e", "dedup", "sel a>k", "sel false", "proj none")
        bins = []
        for l in ("X",):
            for lo_labs, lnode, lp in [((), ("leaf", l), templates.P())] + list(
                    templates.unary_sequences(("leaf", l), LEAFCOLS, 1, "std", labels=ops1)):
                for r in ("Y", "0"):
                    bins.append((("chain",) + lo_labs + (r,), ("chain", lnode, ("leaf", r)), lp))
                    bins.append((("chain'",) + lo_labs + (r,), ("chain", ("leaf", r), lnode), lp))
                if eng == "sq":
                    for r in ("Z", "I", "W", "0"):
                        bins.append((("join",) + lo_labs + (r,), ("join", lnode, ("leaf", r), None), lp))
                        bins.append((("join'",) + lo_labs + (r,), ("join", ("leaf", r), lnode, None), lp))
        if eng == "sq":
            PQ = ("lt", ("ref", "a"), ("ref", "d"))
            for lo_labs, lnode, lp in [((), ("leaf", "X"), templates.P())] + list(
                    templates.unary_sequences(("leaf", "X"), LEAFCOLS, 1, "std", labels=("sel a>k", "dedup", "proj a"))):
                for pred in (PQ, ("plit", False), ("or", PQ, ("plit", False)), None):
                    bins.append((("xjoin",) + lo_labs, ("join", lnode, ("leaf", "Q"), pred), lp))
                    bins.append((("xjoin'",) + lo_labs, ("join", ("leaf", "Q"), lnode, pred), lp))
        for labs, node, p in bins:
            add(eng, node, p, labs, nn=3 if (labs[0].startswith("join") and len(labs) == 2) else n)
            try:
                for labs2, node2, p2 in templates.unary_sequences(node, LEAFCOLS, 1, "std", labels=ops1 + ("sort a",)):
                    p3 = templates.P()
                    p3.params = {**p.params, **{k.replace("$", "$t"): v for k, v in p2.params.items()}}
                    p3.cons = p.cons + [[a.replace("$", "$t"), b.replace("$", "$t")] for a, b in p2.cons]
                    node3 = _rename_top(node2, node)
                    add(eng, node3, p3, labs + labs2)
            except IllTyped:
                pass
    # trees whose markers already carry payloads (processed before): what a later factory call returns must still execute to rows
    # with exactly its columns (machinery shared with C03 / C15)
    from . import c03
    pp = [p for p in c03.processed_programs(tier) if any(k in repr(p) for k in ("'proj'", "'slice'", "'dedup'", "'sel'"))][::3]
    out += [{"processed": pp[i:i + 12], "kind": "processed"} for i in range(0, len(pp), 12)]
    # the compiled SQL's row count against the static bounds (leaf bounds fixed to the truthful 0..unbounded: the subject here is
    # the statement the engine emits, e.g. LIMIT/OFFSET boundary cases)
    seen = set()
    for sh in list(out):
        if sh.get("eng") == "sq" and not sh.get("processor") and not sh.get("shared") and repr(sh["prog"]) not in seen and "'W'" not in repr(sh["prog"]):
            seen.add(repr(sh["prog"]))
            s2 = dict(sh)
            s2["sqlcount"] = True
            # LIMIT/OFFSET are case-split by the SQL model: slice bounds range over 0..n+1 here
            s2["params"] = {k: ([0, sh["n"] + 1] if k.lstrip("$t")[:1] in ("s", "e") else v) for k, v in sh["params"].items()}
            s2["labels"] = list(sh["labels"]) + ["sqlcount"]
            out.append(s2)
    return out


def _rename_top(node2, inner):
    """Rename the parameters introduced by the top operation ($x -> $tx) to avoid clashes with the operands'."""
    def ren(x):
        if isinstance(x, str) and x.startswith("$"):
            return x.replace("$", "$t")
        if isinstance(x, tuple):
            return tuple(ren(y) for y in x)
        return x

    return (node2[0], inner) + tuple(ren(x) for x in node2[2:])


def _history(env, prog, used, eng):
    """Earlier history in the same engines: equal-but-not-identical trees whose leaves (same names, same columns) were
    declared with other bounds - a leaf re-created after its content changed compares equal to the old one.  Their
    metadata is read so that anything remembered per *equal* relation is remembered before the tree under test exists."""
    env.history = False  # this check's own, stronger history replaces the generic one of prog.build
    for dlo, dhi in ((0, 0),):
        for name in used:
            if name in SPECIAL:
                env.add_special_leaf(name, SPECIAL[name][0], eng, SPECIAL[name][1])
            else:
                add_abstract_leaf(env, name, LEAVES[name], eng, None, min_rows=dlo, max_rows=dhi)
        try:
            d = build(prog, env)
            _ = (d.min_rows, d.max_rows, d.is_trivial, d.is_join_identity, d.columns)
        except Exception:  # noqa: BLE001 - the earlier tree is not the subject
            pass
        env.metadata = None
        env.leaves.clear()
        env.tables.clear()


def run_shape(shape, tier):
    if shape.get("processor"):
        return run_processor_shape(shape)
    if shape.get("shared"):
        return run_shared_shape(shape)
    if shape.get("kind") == "processed":
        from . import c03
        return c03.run_processed_shape(shape)
    prog = shape["prog"]
    eng = shape["eng"]
    n = shape["n"]
    used = sorted(_leaves_in(prog, set()))
    has_join = "join" in ops_of(prog)
    info = {}

    def h(ctx):
        env = Env(symbolic=True)
        env.count_mode = True
        templates.declare(ctx, env, shape["params"], shape["cons"])
        _history(env, prog, used, eng)
        for name in used:
            if name in SPECIAL:
                env.add_special_leaf(name, SPECIAL[name][0], eng, SPECIAL[name][1])
                continue
            cols = LEAVES[name]
            tab = common.sym_table(ctx, name, cols, n, ordered=True)
            cnt = tab.count()
            if shape.get("sqlcount"):
                add_abstract_leaf(env, name, cols, eng, tab, min_rows=0, max_rows=None)
                continue
            if has_join:
                lo = ctx.int(f"{name}.lo", 0, n)
                hi = ctx.int(f"{name}.hi", 0, n + 1)
            else:
                lo = ctx.int(f"{name}.lo", 0)
                hi = ctx.int(f"{name}.hi", 0)
            unb = ctx.bool(f"{name}.unbounded")
            ctx.assume(lo.t <= cnt)
            hi_val = None if unb else hi
            if hi_val is not None:
                ctx.assume(cnt <= hi.t)
            add_abstract_leaf(env, name, cols, eng, tab, min_rows=lo, max_rows=hi_val)
        try:
            rel = build(prog, env)
        except Exception as e:  # noqa: BLE001
            from lsst.daf.relation import RelationalAlgebraError
            if isinstance(e, RelationalAlgebraError) and "row order" in str(e):
                raise Skip("rejected at construction: row-order loss")
            return [("accepted", False, {"exc": f"{type(e).__name__}: {e}"[:200]})]
        info.setdefault("tree", str(rel))
        ref = sem_seq(prog, env)
        cnt = ref.count()
        obs = []
        lo, hi = rel.min_rows, rel.max_rows
        obs.append(("min_rows <= count", zint(lo) <= cnt, {"min_rows": str(lo)}))
        if hi is not None:
            obs.append(("count <= max_rows", cnt <= zint(hi), {"max_rows": str(hi)}))
        obs.append(("columns", {t.qualified_name for t in rel.columns} == set(ref.cols), {"columns": sorted(map(str, rel.columns))}))
        if rel.is_join_identity:
            obs.append(("is_join_identity => one row, no columns", z3.And(cnt == 1, z3.BoolVal(not ref.cols)), {}))
        if rel.is_trivial:
            obs.append(("is_trivial => identity or empty", z3.Or(cnt == 0, z3.And(cnt == 1, z3.BoolVal(not ref.cols))), {}))
        if eng == "sq" and shape.get("sqlcount"):
            # the other half of "executed": the SELECT the real engine compiles, evaluated by the SQL model over the same tables
            try:
                ex = env.engines["sq"].to_executable(rel)
                sqlt = sqlprogs.strip_ignored(sqlmodel.select(ex, {k: relmodel.unordered(v) for k, v in env.tables.items()}))
            except (sqlmodel.OutsideModel, sqlmodel.SqlInvalid):
                sqlt = None
            except Exception:  # noqa: BLE001 - compile failures are C08's subject
                sqlt = None
            if sqlt is not None:
                scnt = sqlt.count()
                obs.append(("min_rows <= rows returned by the compiled SQL", zint(lo) <= scnt, {"min_rows": str(lo), "sql": str(ex)[:160]}))
                if hi is not None:
                    obs.append(("rows returned by the compiled SQL <= max_rows", scnt <= zint(hi), {"max_rows": str(hi), "sql": str(ex)[:160]}))
                obs.append(("SQL result columns", set(sqlt.cols) == {t.qualified_name for t in rel.columns}, {"sql columns": sorted(sqlt.cols)}))
        if ("chain" in ops_of(prog) or has_join) and any(u in SPECIAL for u in used):
            try:
                got = sem_tree(rel, env)
            except IllFormed as e:
                return obs + [("returned tree is well-formed", False, {"why": str(e), "tree": str(rel)})]
            obs.append(("tree content == sequence content (short-cuts)", relmodel.mset_eq(relmodel.unordered(got), relmodel.unordered(ref))
                        if not _has_slice(prog) else (relmodel.index_order(got).count() == cnt), {"tree": str(rel)}))
        return obs

    res = explore(h, max_paths=3000, wall_s=240)
    out = res.as_dict()
    out["shape"] = {"eng": eng, "prog": fmt(prog)}
    out["sample"] = {"engine": eng, "program": fmt(prog), "tree": info.get("tree"), "paths": res.paths,
                     "declared bounds": "symbolic lo<=count<=hi|None per leaf"}
    vios = []
    for cx in res.cex:
        m = cx["model"]
        bind = templates.bind_concrete(shape["params"], m)
        rows = {name: common.rows_from_model(m, name, LEAVES[name], n) for name in used if name in LEAVES}
        decl = {name: (m.get(f"{name}.lo", 0), None if m.get(f"{name}.unbounded") else m.get(f"{name}.hi", 0)) for name in rows}
        if shape.get("sqlcount"):
            decl = {name: (0, None) for name in rows}
        fails, symptom, detail = concrete_check(prog, eng, rows, decl, bind)
        if not fails:
            out["status"] = "harness-error"
            out["detail"] = f"counterexample does not reproduce: {fmt(prog)} {bind} {rows} {decl} [{cx['label']}] {cx['info']}"
            return out
        mprog = common.minimise(prog, lambda p: concrete_check(p, eng, rows, decl, bind)[1] == symptom)
        vios.append({"site": f"{'sq' if eng == 'sq' else 'it'}:{'>'.join(ops_of(mprog))}/{symptom}",
                     "summary": f"{fmt(mprog)} bind={bind} rows={rows} declared={decl}: {symptom} {concrete_check(mprog, eng, rows, decl, bind)[2]}",
                     "replay": {"prog": to_jsonable(mprog), "eng": eng, "rows": rows, "decl": decl, "bind": bind, "symptom": symptom}})
    if vios:
        out["status"], out["violations"] = VIOLATION, vios
    elif res.inconclusive or not res.complete:
        out["status"], out["detail"] = INCONCLUSIVE, "; ".join(res.notes)[:100]
    elif res.skipped and not res.obligations:
        out["status"], out["detail"] = UNDECIDED, res.skipped
    else:
        out["status"] = HOLDS
    return out


def _has_slice(prog):
    return "slice" in ops_of(prog)


def common_shared(prog):
    return False


def concrete_check(prog, eng, rows, decl, bind):
    env = Env()
    env.bind = dict(bind)
    used = sorted(_leaves_in(prog, set()))
    leafrows = {}
    _history(env, prog, used, eng)
    for name in used:
        if name in SPECIAL:
            env.add_special_leaf(name, SPECIAL[name][0], eng, SPECIAL[name][1])
            leafrows[name] = [{}] if SPECIAL[name][0] == "identity" else []
        else:
            lo, hi = decl[name]
            add_abstract_leaf(env, name, LEAVES[name], eng, None, min_rows=lo, max_rows=hi)
            leafrows[name] = rows[name]
    try:
        rel = build(prog, env)
    except Exception as e:  # noqa: BLE001
        return True, f"raises:{type(e).__name__}", str(e)[:150]
    exp = pyeval(prog, leafrows, bind, env.tags)
    cnt = len(exp)
    if rel.min_rows > cnt:
        return True, "min_rows>count", {"min_rows": rel.min_rows, "count": cnt}
    if rel.max_rows is not None and rel.max_rows < cnt:
        return True, "max_rows<count", {"max_rows": rel.max_rows, "count": cnt}
    ecols = set(exp[0]) if exp else None
    if ecols is not None and {t.qualified_name for t in rel.columns} != ecols:
        return True, "columns-differ", {"columns": sorted(map(str, rel.columns)), "row keys": sorted(ecols)}
    if rel.is_join_identity and not (cnt == 1 and not rel.columns):
        return True, "is_join_identity-wrong", {"count": cnt}
    if rel.is_trivial and not (cnt == 0 or (cnt == 1 and not rel.columns)):
        return True, "is_trivial-wrong", {"count": cnt}
    if eng == "sq":
        try:
            ex = env.engines["sq"].to_executable(rel)
            srows = sqlmodel.run_sqlite(ex, env.metadata, {k: v for k, v in leafrows.items() if k in LEAVES and env.metadata is not None
                                                            and k in env.metadata.tables})
        except Exception:  # noqa: BLE001 - compile / database failures are C08's subject
            srows = None
        if srows is not None:
            if rel.min_rows > len(srows):
                return True, "min_rows>sql-count", {"min_rows": rel.min_rows, "sql rows": len(srows), "sql": str(ex)[:160]}
            if rel.max_rows is not None and rel.max_rows < len(srows):
                return True, "max_rows<sql-count", {"max_rows": rel.max_rows, "sql rows": len(srows), "sql": str(ex)[:160]}
    from ..prog import pytree
    if not any(u in SPECIAL for u in used):
        return False, "", None
    from ..prog import tree_problem
    tp = tree_problem(rel)
    if tp:
        return True, "tree-ill-formed", tp[:160]
    try:
        got = pytree(rel, leafrows)
    except Exception as e:  # noqa: BLE001
        return True, f"tree-not-evaluable:{type(e).__name__}", str(e)[:100]
    if len(got) != cnt or (not _has_slice(prog) and common.canon(got) != common.canon(exp)):
        return True, "tree-content-differs", {"tree": str(rel), "expected": exp, "observed": got}
    return False, "", None


def replay(v):
    r = v["replay"]
    if r.get("processed"):
        from . import c03
        return c03.replay(v)
    if r.get("shared"):
        sh = r["shape"]
        sh["prog"] = from_jsonable(sh["prog"])
        out = run_shared_shape(sh)
        return out["status"] == VIOLATION, str(out.get("violations", [{}])[0].get("summary", "agrees"))
    if r.get("processor"):
        sh = r["shape"]
        sh["prog"] = from_jsonable(sh["prog"])
        out = run_processor_shape(sh)
        return out["status"] == VIOLATION, str(out.get("violations", [{}])[0].get("summary", "agrees"))
    prog = from_jsonable(r["prog"])
    decl = {k: tuple(x) for k, x in r["decl"].items()}
    fails, symptom, detail = concrete_check(prog, r["eng"], r["rows"], decl, r["bind"])
    return fails and symptom == r["symptom"], f"{fmt(prog)} rows={r['rows']} declared={decl}: {symptom} {detail}"


def describe(tier):
    return {
        "explanation": "Trees are built through the real factories over leaves whose declared min_rows/max_rows are symbolic "
                       "(unbounded integers, max possibly None; finite domain for programs with a join because of the one product), "
                       "so applied_min_rows/applied_max_rows/is_join_identity/is_trivial run on symbolic values and fork.  Leaf "
                       "contents are symbolic tables whose row count is constrained to the declared bounds; z3 decides "
                       "min_rows <= count(direct evaluation) <= max_rows, the column set, and the flag implications; for "
                       "programs with chain/join (identity, doomed and zero-column operands) also that the returned tree has the "
                       "content of the operation sequence (join elision / IgnoreOne short-cuts).",
        "bounds": {"slots per leaf": 2 if tier == "quick" else 3, "depth": "unary <=2 (+3 curated in thorough); binary of <=1-op operand + <=1 op",
                   "declared bounds": "unbounded symbolic (0..N+1 when a join is present)", "slice bounds/literals": "unbounded"},
        "outside": ["deeper programs", "more rows than slots", "leaves whose declared bounds are not truthful"],
        "assumptions": ["leaf declared bounds and columns are truthful (stated in the property)"],
    }
