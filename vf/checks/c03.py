"""C03 - preferred-engine (backtracking) insertion never changes relation content."""
from __future__ import annotations

import z3

from .. import common, meprogs, relmodel, templates
from ..driver import HOLDS, INCONCLUSIVE, UNDECIDED, VIOLATION
from ..prog import (Env, IllFormed, IllTyped, add_abstract_leaf, build, cols_of, fmt, from_jsonable, ops_of, pyeval, pytree, sem_seq, sem_tree, tree_problem,
                    to_jsonable)
from ..symx import Skip, explore, zint
from . import c14

PID = "C03"
LEVEL = "other"
N = 2
NP = 2  # slots of the join partners (two, so that a partner can hold duplicate rows)
PRE = ("calc d=a+b", "sel a>k", "proj -b")
MID1 = ("calc d=a+b", "proj -b", "sel a>k", "dedup", "sort -b,a", "slice s:e", "mat", "sort a")
MID2 = (("sort a", "sel a>k"), ("proj -b", "dedup"), ("dedup", "sel a>k"), ("sel a>k", "sort -b,a"), ("calc d=a+b", "proj -b"),
        ("proj -b", "calc d=a+b"), ("mat", "sel a>k"), ("sort a", "slice s:e"), ("proj -c", "sel a>k"), ("sel a>k", "mat"),
        ("dedup", "proj -b"), ("sort a", "dedup"))


def programs(tier):
    acts = meprogs.actions("full")
    finals = [a[0] for a in acts if a[3]]
    out = []
    optsets = [o for o in meprogs.option_sets(full=True) if o is not None]
    for st_name in ("X", "S"):
        st = ("leaf", st_name)
        src_eng = meprogs.LEAVES[st_name][0]
        pres = [st] + [n for n in (c14._apply(acts, l, st, None, 1) for l in PRE) if n]
        for pre in pres:
            for dest in meprogs.ENGINES:
                if dest == src_eng:
                    continue
                x = ("xfer", pre, dest)
                mids = [x] + [n for n in (c14._apply(acts, l, x, None, 2) for l in MID1) if n]
                for l1, l2 in MID2:
                    m1 = c14._apply(acts, l1, x, None, 2)
                    m2 = c14._apply(acts, l2, m1, None, 3) if m1 else None
                    if m2:
                        mids.append(m2)
                if tier == "quick" and pre is not st:
                    mids = mids[:1 + len(MID1)]
                if pre is st and dest != "sq":
                    # a user-defined marker relation (extension point) downstream of the transfer, in an iteration engine (what
                    # the SQL engine's conform does with foreign markers is outside the stated properties)
                    mids += [("tag", x), ("sel", ("tag", x), ("gt", meprogs.A, ("lit", "$k2")))]
                    # user-defined operations (extension points): an order-dependent reordering and a row filter
                    mids += [("custr", x), ("custr", ("sort", x, ((meprogs.B, False), (meprogs.A, True)))), ("cust", x)]
                for mid in mids:
                    for lab in finals:
                        for o in optsets:
                            n3 = c14._apply(acts, lab, mid, o, 4)
                            if n3:
                                out.append(n3)
                    for other in ("Y", "T", "Z", "U"):
                        for bt in ((True, False), (True, True), (False, True)):
                            node = ("join", mid, ("leaf", other), None, bt)
                            try:
                                cols_of(node, meprogs.LEAFCOLS)
                                out.append(node)
                            except IllTyped:
                                pass
    return out


def processed_programs(tier):
    """Final operation applied (with the source engine preferred) to a tree that has already been processed, so that its
    transfer carries a payload; the result is processed and executed again ("once processed, the same rows")."""
    acts = meprogs.actions("full")
    out = []
    X = ("leaf", "X")
    for pre in (X, ("sel", X, ("gt", meprogs.A, ("lit", "$k1")), None)):
        x = ("xfer", pre, "it2")
        mids = [x] + [n for n in (c14._apply(acts, l, x, None, 2) for l in ("calc d=a+b", "sort a", "proj -b", "sel a>k")) if n]
        for mid in mids:
            for lab in ("sel a>k", "proj a", "proj -b", "dedup", "sort -b,a", "sel b>sq a", "proj -d"):
                for t, r in ((False, False), (True, False), (False, True)):
                    n3 = c14._apply(acts, lab, mid, ("it1", True, t, r), 4)
                    if n3:
                        out.append(n3)
    return out


def shapes(tier, seed):
    progs = programs(tier)
    size = 50
    out = [{"progs": progs[i:i + size]} for i in range(0, len(progs), size)]
    pp = processed_programs(tier)
    out += [{"processed": pp[i:i + 12]} for i in range(0, len(pp), 12)]
    return out


def _run_processed(prog, env):
    """-> (rows executed after processing the result, plain-root rows executed the same way)"""
    from .. import symproc

    db = symproc.SymDB(env)
    log = []
    proc = symproc.make_processor(db, log)
    memo = {}
    mid = build(prog[1], env, memo)
    processed_mid = proc.process(mid)
    memo[id(prog[1])] = processed_mid
    res = build(prog, env, memo)
    out = proc.process(res)
    return [dict(r) for r in out.engine.execute(out)], str(res)


def run_processed_shape(shape):
    from lsst.daf.relation import ColumnError, EngineError, RelationalAlgebraError

    tot = {"paths": 0, "queries": 0, "solver_s": 0.0, "obligations": 0, "discharged": 0, "inconclusive": 0}
    functions = set()
    vios = []
    sample = None
    for prog in shape["processed"]:
        params, cons = meprogs.params_for(prog)
        info = {}

        def mk(ctx, vals=None):
            env = Env(symbolic=ctx is not None)
            rows = [{c: (ctx.int(f"X.{c}{i}") if ctx is not None else int(vals.get(f"X.{c}{i}", 0))) for c in "abc"} for i in range(N)]
            env.add_iter_leaf("X", "abc", rows, engine="it1")
            return env

        def h(ctx, prog=prog, params=params, cons=cons, info=info):
            env = mk(ctx)
            templates.declare(ctx, env, params, cons)
            try:
                got, tree = _run_processed(prog, env)
            except (EngineError,) as e:
                raise Skip(f"EngineError: {str(e)[:60]}")
            except (ColumnError, RelationalAlgebraError) as e:
                return [("valid operation on a processed tree is accepted", False, {"exc": f"{type(e).__name__}: {e}"[:160]})]
            except Exception as e:  # noqa: BLE001
                return [("processed tree accepts the operation and executes", False, {"exc": f"{type(e).__name__}: {e}"[:160]})]
            info.setdefault("tree", tree)
            ref = sem_seq(prog, env)
            gz = [{t.qualified_name: zint(v) for t, v in r.items()} for r in got]
            return [("rows after processing == rows of root application", relmodel.seq_equals_list(ref, gz) if ref.ordered else
                     relmodel.mset_equals_list(relmodel.unordered(ref), gz), {"tree": tree})]

        res = explore(h, max_paths=1500, wall_s=90, profile=(sample is None))
        for k in tot:
            tot[k] += getattr(res, k)
        functions |= res.functions
        if sample is None and res.obligations:
            sample = {"program (final call on an already processed tree)": fmt(prog), "tree": info.get("tree"), "paths": res.paths}
        for cx in res.cex[:1]:
            m = cx["model"]
            env = mk(None, m)
            env.bind = templates.bind_concrete(params, m)
            rows = [{c: int(m.get(f"X.{c}{i}", 0)) for c in "abc"} for i in range(N)]
            try:
                got, tree = _run_processed(prog, env)
                got = [{t.qualified_name: v for t, v in r.items()} for r in got]
                exp = pyeval(prog, {"X": rows}, env.bind, env.tags)
                strict = sem_seq(prog, env).ordered  # the same criterion as the symbolic obligation
                bad = None if (got == exp or (not strict and common.canon(got) == common.canon(exp))) else f"rows-differ: expected {exp} observed {got} tree {tree}"
            except Exception as e:  # noqa: BLE001
                bad = f"raises {type(e).__name__}: {e}"[:200]
            if bad is None:
                return {"status": "harness-error", "detail": f"counterexample does not reproduce: processed {fmt(prog)} {cx['info']}", **tot}
            vios.append({"site": f"processed:{_site(prog)}/{bad.split(':')[0]}", "summary": f"final call on a processed tree: {fmt(prog)} X={rows}: {bad}",
                         "replay": {"processed": True, "prog": to_jsonable(prog), "model": {k: v for k, v in m.items()}, "symptom": bad.split(':')[0]}})
    out = dict(tot)
    out["functions"] = sorted(functions)
    out["shape"] = f"processed: {fmt(shape['processed'][0])} (+{len(shape['processed']) - 1} more)"
    out["sample"] = sample or {"note": "batch rejected"}
    if vios:
        out["status"], out["violations"] = VIOLATION, vios
    elif tot["inconclusive"]:
        out["status"], out["detail"] = INCONCLUSIVE, "budget"
    else:
        out["status"] = HOLDS
    return out


def make_env(ctx, symbolic=True, leaves=("X", "S", "Y", "T", "Z", "U")):
    env = Env(symbolic=symbolic)
    for name, (eng, cols) in meprogs.LEAVES.items():
        tab = None
        if ctx is not None:
            tab = common.sym_table(ctx, name, cols, N if name in ("X", "S") else NP, ordered=(eng != "sq"))
        add_abstract_leaf(env, name, cols, eng, tab)
    return env


def op_counts(rel, acc=None, seen=None):
    """Number of operation nodes per engine name."""
    from lsst.daf.relation import BinaryOperationRelation, MarkerRelation, UnaryOperationRelation

    acc = {} if acc is None else acc
    seen = set() if seen is None else seen
    if id(rel) in seen:
        return acc
    seen.add(id(rel))
    if isinstance(rel, UnaryOperationRelation):
        acc[str(rel.engine)] = acc.get(str(rel.engine), 0) + 1
        op_counts(rel.target, acc, seen)
    elif isinstance(rel, BinaryOperationRelation):
        acc[str(rel.engine)] = acc.get(str(rel.engine), 0) + 1
        op_counts(rel.lhs, acc, seen)
        op_counts(rel.rhs, acc, seen)
    elif isinstance(rel, MarkerRelation):
        op_counts(rel.target, acc, seen)
    return acc


def _opts_of(prog):
    if prog[0] == "join":
        bt = prog[4]
        other_eng = meprogs.LEAVES[prog[2][1]][0]
        return (other_eng, bt[0], bt[1], False)
    return prog[-1]


def _plain(prog):
    """The same final call without preferred-engine options (applied at the root)."""
    if prog[0] == "join":
        return None
    return prog[:-1] + (None,)


def _restricted_kinds(x, acc=None):
    acc = set() if acc is None else acc
    if isinstance(x, tuple):
        if x and x[0] in ("rneg", "rgt"):
            acc.add(x[-1])
        for y in x:
            _restricted_kinds(y, acc)
    return acc


def _valid_at_root(prog, env, memo):
    """The final operation is supported by the root engine and by the requested engine."""
    from lsst.daf.relation import EngineError

    pe = _opts_of(prog)[0]
    kinds = _restricted_kinds(prog[2:])
    if pe and kinds and ("sq" if pe == "sq" else "it") not in kinds:
        return False

    plain = _plain(prog)
    if plain is None:
        return True
    try:
        build(plain, env, dict(memo))
    except EngineError:
        return False
    except Exception:  # noqa: BLE001
        return True
    return True


def control_problem(prog, before, rel):
    if rel is before:
        return None  # the operation was a documented no-op
    pe, backtrack, transfer, require = _opts_of(prog)
    cb, ca = op_counts(before), op_counts(rel)
    grew_elsewhere = [e for e in ca if e != pe and ca[e] > cb.get(e, 0)]
    if transfer:
        if str(rel.engine) != pe and (not backtrack or grew_elsewhere):
            return f"transfer=True but the operation was performed in {grew_elsewhere or rel.engine}, not in {pe}"
    elif require and grew_elsewhere:
        return f"require_preferred_engine=True but an operation was added in {grew_elsewhere}"
    return None


def run_shape(shape, tier):
    from lsst.daf.relation import ColumnError, EngineError, RelationalAlgebraError

    if shape.get("processed"):
        return run_processed_shape(shape)
    tot = {"paths": 0, "queries": 0, "solver_s": 0.0, "obligations": 0, "discharged": 0, "inconclusive": 0}
    functions = set()
    vios = []
    sample = None
    stats = {"moved": 0, "same-as-root": 0}
    for prog in shape["progs"]:
        params, cons = meprogs.params_for(prog)
        info = {}

        def h(ctx, prog=prog, params=params, cons=cons, info=info):
            env = make_env(ctx)
            templates.declare(ctx, env, params, cons)
            memo = {}
            pe, backtrack, transfer, require = _opts_of(prog)
            try:
                before = build(prog[1], env, memo)
            except Exception as e:  # noqa: BLE001
                raise Skip(f"prefix rejected: {type(e).__name__}")
            try:
                rel = build(prog, env, memo)
            except EngineError as e:
                if prog[0] == "join" and not transfer:
                    raise Skip("join across engines without transfer: EngineError is the documented outcome")
                if require and not transfer:
                    return [("EngineError only when required engine cannot be honoured", True, {})]
                if not _valid_at_root(prog, env, memo):
                    raise Skip("operation not valid at the root (expression unsupported by the root engine)")
                return [("no EngineError without require_preferred_engine", False, {"exc": str(e)[:160]})]
            except ColumnError as e:
                return [("valid operation not rejected with a column error", False, {"exc": str(e)[:160]})]
            except RelationalAlgebraError as e:
                if "row order" in str(e):
                    raise Skip("rejected: row-order loss")
                return [("documented exception class", False, {"exc": f"{type(e).__name__}: {e}"[:160]})]
            except Exception as e:  # noqa: BLE001
                return [("documented exception class", False, {"exc": f"{type(e).__name__}: {e}"[:160]})]
            info.setdefault("tree", str(rel))
            obs = []
            p = control_problem(prog, before, rel)
            obs.append(("preferred-engine contract", p is None, {"problem": p, "tree": str(rel)}))
            want_cols = set(cols_of(prog, meprogs.LEAFCOLS))
            obs.append(("columns", {t.qualified_name for t in rel.columns} == want_cols, {"columns": sorted(map(str, rel.columns))}))
            plain = _plain(prog)
            if plain is not None:
                try:
                    rel0 = build(plain, env, dict(memo))
                    if rel0 == rel:
                        info["same"] = True
                        obs.append(("content (tree identical to root application)", True, {}))
                        return obs
                except Exception:  # noqa: BLE001 - e.g. expression unsupported at the root engine: nothing to compare structurally
                    pass
            info["moved"] = True
            ref = sem_seq(prog, env)
            try:
                got = sem_tree(rel, env)
            except IllFormed as e:
                return obs + [("returned tree is well-formed", False, {"why": str(e), "tree": str(rel)})]
            if ref.ordered and got.ordered and "S" not in repr(prog):
                obs.append(("content (sequence)", relmodel.seq_eq(got, ref), {"tree": str(rel)}))
            else:
                obs.append(("content (multiset)", relmodel.mset_eq(relmodel.unordered(got), relmodel.unordered(ref)), {"tree": str(rel)}))
            return obs

        res = explore(h, max_paths=300, wall_s=60, profile=(sample is None))
        for k in tot:
            tot[k] += getattr(res, k)
        functions |= res.functions
        stats["moved" if info.get("moved") else "same-as-root"] += 1
        if info.get("moved") and (sample is None or not sample.get("moved")) and res.obligations:
            sample = {"program": fmt(prog), "tree": info.get("tree"), "paths": res.paths, "moved": True}
        elif sample is None and res.obligations:
            sample = {"program": fmt(prog), "tree": info.get("tree"), "paths": res.paths}
        for cx in res.cex[:1]:
            m = cx["model"]
            bind = templates.bind_concrete(params, m)
            rows = {n: common.rows_from_model(m, n, meprogs.LEAFCOLS[n], N if n in ("X", "S") else NP) for n in meprogs.LEAVES}
            fails, symptom, detail = concrete_check(prog, rows, bind)
            if not fails:
                return {"status": "harness-error", "detail": f"counterexample does not reproduce: {fmt(prog)} {bind} {rows} {cx['label']} {cx['info']}", **tot}
            mprog = _minimise(prog, rows, bind, symptom)
            vios.append({"site": f"{_site(mprog)}/{symptom}", "summary": f"{fmt(mprog)} bind={bind} rows={rows}: {symptom} {concrete_check(mprog, rows, bind)[2]}",
                         "replay": {"prog": to_jsonable(mprog), "rows": rows, "bind": bind, "symptom": symptom}, "original_program": fmt(prog)})
    out = dict(tot)
    out["functions"] = sorted(functions)
    out["shape"] = f"{fmt(shape['progs'][0])} (+{len(shape['progs']) - 1} more)"
    out["sample"] = sample or {"note": "all programs of this batch were rejected"}
    out["stats"] = stats
    if vios:
        out["status"], out["violations"] = VIOLATION, vios
    elif tot["inconclusive"]:
        out["status"], out["detail"] = INCONCLUSIVE, "budget"
    else:
        out["status"] = HOLDS
    return out


def _minimise(prog, rows, bind, symptom):
    """Drop operations below the final call while the failure persists (the final call keeps its options)."""
    head, rest = prog[0], prog[2:]
    inner = common.minimise(prog[1], lambda p: concrete_check((head, p) + rest, rows, bind)[1] == symptom)
    return (head, inner) + rest


def _site(prog):
    """Operation types between the nearest transfer and the final call + final operation type (engine names and option
    flags abstracted: the defect classes do not depend on them)."""
    def walk(n):
        if n[0] == "leaf":
            return []
        if n[0] in ("join", "chain"):
            return walk(n[1]) + [n[0]]
        return walk(n[1]) + [("to" if n[0] == "xfer" else n[0])]
    seq = walk(prog)
    # operations upstream of the last transfer do not take part in backtracking decisions: not part of the site
    if "to" in seq:
        seq = seq[len(seq) - 1 - seq[::-1].index("to"):]
    return ">".join(seq)


def concrete_check(prog, rows, bind):
    from lsst.daf.relation import ColumnError, EngineError, RelationalAlgebraError

    env = make_env(None, symbolic=False)
    env.bind = dict(bind)
    memo = {}
    pe, backtrack, transfer, require = _opts_of(prog)
    try:
        before = build(prog[1], env, memo)
    except Exception:  # noqa: BLE001
        return False, "prefix-rejected", None
    try:
        rel = build(prog, env, memo)
    except EngineError as e:
        if (prog[0] == "join" and not transfer) or (require and not transfer) or not _valid_at_root(prog, env, memo):
            return False, "", None
        return True, "spurious-EngineError", str(e)[:120]
    except ColumnError as e:
        return True, "valid-operation-rejected-ColumnError", str(e)[:120]
    except RelationalAlgebraError as e:
        if "row order" in str(e):
            return False, "", None
        return True, f"raises:{type(e).__name__}", str(e)[:120]
    except Exception as e:  # noqa: BLE001
        return True, f"raises:{type(e).__name__}", str(e)[:120]
    p = control_problem(prog, before, rel)
    if p:
        return True, "preferred-engine-contract", p
    if {t.qualified_name for t in rel.columns} != set(cols_of(prog, meprogs.LEAFCOLS)):
        return True, "columns-differ", sorted(map(str, rel.columns))
    leafrows = {n: rows.get(n, []) for n in meprogs.LEAVES}
    exp = pyeval(prog, leafrows, bind, env.tags)
    tp = tree_problem(rel)
    if tp:
        return True, "tree-ill-formed", tp[:160]
    try:
        got = pytree(rel, leafrows)
    except Exception as e:  # noqa: BLE001
        return True, f"tree-not-evaluable:{type(e).__name__}", str(e)[:100]
    ordered = "S" not in repr(prog) and "join" not in ops_of(prog)
    same = (got == exp) if ordered else (common.canon(got) == common.canon(exp))
    if not same:
        return True, "rows-differ", {"tree": str(rel), "expected": exp, "observed": got}
    return False, "", None


def replay(v):
    r = v["replay"]
    if r.get("processed"):
        out = run_processed_shape({"processed": [from_jsonable(r["prog"])]})
        return out["status"] == VIOLATION, str(out.get("violations", [{}])[0].get("summary", "agrees"))
    prog = from_jsonable(r["prog"])
    fails, symptom, detail = concrete_check(prog, r["rows"], r["bind"])
    return fails and symptom == r["symptom"], f"{fmt(prog)}: {symptom} {detail}"


def describe(tier):
    return {
        "explanation": "Trees of the shape source (iteration or SQL leaf, <=1 operation) -> transfer -> 0-2 downstream operations (incl. "
                       "materialization) receive one final unary operation (16 templates) under all 8 backtrack/transfer/require "
                       "combinations for each of the three engines as preferred engine, or a join with a leaf of each engine.  The real "
                       "apply()/backtrack_unary()/commute()/Transfer.reapply run under symx.  If the returned tree differs from plain "
                       "application at the root, z3 decides that its relmodel content equals direct evaluation of the operation sequence "
                       "(sequence for iteration-only trees, multiset otherwise) for all leaf contents within the slot bound; columns, "
                       "absence of spurious ColumnError/EngineError and the transfer / require_preferred_engine contracts (per-engine "
                       "operation-node counts) are path assertions.",
        "bounds": {"slots": "2 per source leaf, 1 per join operand", "downstream operations": "<=2 (12 curated pairs)", "upstream operations": "<=1"},
        "outside": ["deeper trees", "execution of the processed trees (C01/C07)"],
        "assumptions": ["relmodel semantics; join content compared as multiset"],
        "rule": "one evaluation = one batch of 50 programs, each explored on all paths; stats.moved counts programs whose tree differs from root application",
    }
