"""C04 - commutation reports are sound for every operation pair and target."""
from __future__ import annotations

import z3

from .. import common, exprsem, relmodel, templates
from ..driver import HOLDS, INCONCLUSIVE, UNDECIDED, VIOLATION
from ..prog import (Env, IllFormed, add_abstract_leaf, apply_lib_op, build, cols_of, fmt, from_jsonable, make_op,
                    py_apply_lib_op, py_of_lib, to_jsonable)
from ..symx import Skip, explore

PID = "C04"
LEVEL = "other"
COLS = ("a", "b", "c")
LEAFCOLS = {"X": COLS}
PJ = {  # partial-join templates: label -> (fixed leaf columns, predicate)
    "pjoin Y{a,d}": (("a", "d"), None),
    "pjoin Y{a,b}": (("a", "b"), None),
    "pjoin Y{a,d} on c<d": (("a", "d"), ("lt", ("ref", "c"), ("ref", "d"))),
    "pjoin Y{d}": (("d",), None),
    # fixed operands with a non-key column (joins never match on those)
    "pjoin Y{a,v}": (("a", "v"), None),
    "pjoin Y{a,b,w}": (("a", "b", "w"), None),
}
# second schema: X{a,b,c,v} with a non-key column v
COLS_V = ("a", "b", "c", "v")
E_V = ("proj -v", "proj a", "proj none", "proj -c", "proj -a", "calc d", "sel a>k", "dedup", "sort a", "slice s:e", "sort total")
X_V = ("proj -v", "proj a", "dedup", "sort total", "slice s:e", "sel a>k", "calc d")


def shapes(tier, seed):
    n = 3 if tier == "quick" else 4
    out = []
    T = templates.unary_templates("full")
    for lab_e, need_e, make_e in T:
        if not need_e(set(COLS)):
            continue
        pe = templates.P()
        e_node = make_e(("leaf", "X"), pe, set(COLS))
        try:
            cols = set(cols_of(e_node, LEAFCOLS))
        except Exception:  # noqa: BLE001
            continue
        for lab_x, need_x, make_x in T:
            if not need_x(cols):
                continue
            px = templates.P()
            px.n = pe.n
            x_node = make_x(e_node, px, cols)
            out.append({"e": lab_e, "x": lab_x, "e_node": e_node, "x_node": x_node,
                        "params": {**pe.params, **px.params}, "cons": pe.cons + px.cons, "n": n})
        out.append({"e": lab_e, "x": "identity", "e_node": e_node, "x_node": None, "params": pe.params,
                    "cons": pe.cons, "n": n})
        for lab, (ycols, pred) in PJ.items():
            out.append({"e": lab_e, "x": lab, "e_node": e_node, "x_node": None, "pj": lab, "params": pe.params,
                        "cons": pe.cons, "n": min(n, 3), "fixed_lhs": False})
            if tier == "thorough":
                out.append({"e": lab_e, "x": lab + " (fixed lhs)", "e_node": e_node, "x_node": None, "pj": lab,
                            "params": pe.params, "cons": pe.cons, "n": 3, "fixed_lhs": True})
    # schema with a non-key column
    seen = set()
    for lab_e, need_e, make_e in T:
        if (lab_e not in E_V and tier == "quick") or not need_e(set(COLS_V)) or lab_e in seen:
            continue
        seen.add(lab_e)
        pe = templates.P()
        e_node = make_e(("leaf", "X"), pe, set(COLS_V))
        try:
            cols = set(cols_of(e_node, {"X": COLS_V}))
        except Exception:  # noqa: BLE001
            continue
        seen_x = set()
        for lab_x, need_x, make_x in T:
            if lab_x not in X_V or lab_x in seen_x or not need_x(cols):
                continue
            seen_x.add(lab_x)
            px = templates.P()
            px.n = pe.n
            out.append({"e": lab_e + " /v", "x": lab_x, "e_node": e_node, "x_node": make_x(e_node, px, cols), "cols": COLS_V,
                        "params": {**pe.params, **px.params}, "cons": pe.cons + px.cons, "n": 3})
        for lab in ("pjoin Y{a,v}", "pjoin Y{a,b,w}", "pjoin Y{a,d}"):
            for lhs in (False, True):
                out.append({"e": lab_e + " /v", "x": lab + (" (fixed lhs)" if lhs else ""), "e_node": e_node, "x_node": None, "pj": lab,
                            "cols": COLS_V, "params": pe.params, "cons": pe.cons, "n": 3, "fixed_lhs": lhs})
    # the same pairs over a target whose declared row bound is finite (max_rows = number of slots): commutation rules may look at it
    bounded = []
    for sh in out:
        if sh.get("cols") or sh.get("pj"):
            continue
        b = dict(sh)
        b["decl_max"] = True
        b["e"] = sh["e"] + " /max_rows=n"
        bounded.append(b)
    return out + bounded


def _partial_join(env, shape, cur):
    from lsst.daf.relation import Join

    ycols, pred = PJ[shape["pj"]]
    fixed = env.leaves["Y"]
    j = Join(exprsem.lib_of_ast(pred, env.tags, env.val)) if pred is not None else Join()
    pj = j.partial(fixed, is_lhs=shape.get("fixed_lhs", False))
    pj, _ = pj._begin_apply(cur, None)  # resolves common columns; raises ColumnError if not applicable
    return pj


def _apply(t, o, env, strict):
    """Oracle application of a real operation (incl. PartialJoin) to a table."""
    from lsst.daf.relation import PartialJoin

    if isinstance(o, PartialJoin):
        req = {c.qualified_name for c in o.columns_required}
        if not req <= t.cols:
            raise IllFormed(f"{o} requires {sorted(req - t.cols)}")
        y = env.tables[o.fixed.name]
        common = [c.qualified_name for c in o.binary.common_columns]
        if not set(common) <= (t.cols & y.cols):
            raise IllFormed(f"{o}: common columns {common} missing")
        pred = lambda v: exprsem.z3_of_lib(o.binary.predicate, v)  # noqa: E731
        # columns exposed by both operands and not joined on: the join is not well-formed on this target
        if (t.cols & y.cols) - set(common):
            raise IllFormed(f"{o}: operands share columns {sorted((t.cols & y.cols) - set(common))} that are not join columns")
        return relmodel.join(y, t, common, pred) if o.fixed_is_lhs else relmodel.join(t, y, common, pred)
    return apply_lib_op(t, o, strict=strict)


def _py_apply(rows, o, yrows):
    from lsst.daf.relation import PartialJoin

    if isinstance(o, PartialJoin):
        out = []
        for x in rows:
            for y in yrows:
                if all(x[c.qualified_name] == y[c.qualified_name] for c in o.binary.common_columns):
                    v = {**x, **y}
                    if py_of_lib(o.binary.predicate, v):
                        out.append(v)
        return out
    return py_apply_lib_op(rows, o)


def _interpret(ctx_or_none, env, shape, concrete=None):
    """Shared by the symbolic harness and the concrete replay.  Returns a list of obligations (symbolic) or
    (fails, symptom, detail) (concrete)."""
    from lsst.daf.relation import Calculation, Identity, UnaryOperationRelation

    cur = build(shape["e_node"], env)
    if not isinstance(cur, UnaryOperationRelation):
        raise Skip("existing operation was elided at construction")
    if shape.get("pj"):
        try:
            x = _partial_join(env, shape, cur)
        except Exception as e:  # noqa: BLE001
            raise Skip(f"partial join not applicable: {type(e).__name__}")
    elif shape["x_node"] is None:
        x = Identity()
    else:
        x = make_op(shape["x_node"], env)
    # earlier life of the same objects: other operations were asked to commute with this very relation (and its expression objects)
    # before - backtracking asks one candidate after the other; none of those questions may change the answer to this one
    from lsst.daf.relation import Deduplication, Projection, Slice
    cols = sorted(cur.columns, key=lambda t: t.qualified_name)
    for other in [Projection(frozenset(cols[:1])), Projection(frozenset(cols[1:])), Projection(frozenset(cols[::2])), Deduplication(), Slice(0, 1)]:
        try:
            other.commute(cur)
        except Exception:  # noqa: BLE001 - the earlier questions are not the subject
            pass
    com = x.commute(cur)
    return cur, x, com


def run_shape(shape, tier):
    info = {}
    n = shape["n"]
    xcols = tuple(shape.get("cols") or COLS)

    def h(ctx):
        from lsst.daf.relation import Calculation

        env = Env(symbolic=True)
        tab = common.sym_table(ctx, "X", xcols, n, ordered=True, perm=True)
        add_abstract_leaf(env, "X", xcols, "it1", tab, max_rows=(n if shape.get("decl_max") else None))
        if shape.get("pj"):
            ycols = PJ[shape["pj"]][0]
            ytab = common.sym_table(ctx, "Y", ycols, 2, ordered=True)
            add_abstract_leaf(env, "Y", ycols, "it1", ytab)
        templates.declare(ctx, env, shape["params"], shape["cons"])
        try:
            cur, x, com = _interpret(ctx, env, shape)
        except Skip:
            raise
        except Exception as e:  # noqa: BLE001
            return [("commute-returns", False, {"exc": f"{type(e).__name__}: {e}"[:200]})]
        info.setdefault("commutator", f"first={com.first} second={com.second} done={com.done}")
        T = env.tables["X"]
        try:
            ET = _apply(T, cur.operation, env, strict=False)
            ref = _apply(ET, x, env, strict=True)
        except IllFormed as e:
            raise Skip(f"new operation not valid at the root: {e}")
        obs = []
        if com.first is None:
            obs.append(("no-move hands back existing operation", com.second is cur.operation,
                        {"second": str(com.second)}))
            obs.append(("no-move is not done", com.done is False, {}))
            return obs
        try:
            FT = _apply(T, com.first, env, strict=True)
        except IllFormed as e:
            return obs + [("first well-formed on target", False, {"why": str(e)})]
        try:
            SFT = _apply(FT, com.second, env, strict=True)
        except IllFormed as e:
            return obs + [("second well-formed on first(target)", False, {"why": str(e)})]
        res = SFT
        if not com.done:
            try:
                res = _apply(SFT, x, env, strict=True)
            except IllFormed as e:
                return obs + [("original well-formed after partial move", False, {"why": str(e)})]
        if res.ordered and ref.ordered:
            obs.append(("rows", relmodel.seq_eq(res, ref), {}))
        else:
            obs.append(("rows (multiset)", relmodel.mset_eq(relmodel.unordered(res), relmodel.unordered(ref)), {}))
        return obs

    res = explore(h, max_paths=2000, wall_s=300)
    out = res.as_dict()
    out["shape"] = {"existing": shape["e"], "new": shape["x"]}
    out["sample"] = {"existing": shape["e"], "new": shape["x"], "commutator": info.get("commutator"),
                     "paths": res.paths, "slots": n}
    vios = []
    for cx in res.cex:
        bind = templates.bind_concrete(shape["params"], cx["model"])
        rows = common.rows_from_model(cx["model"], "X", xcols, n, perm=True)
        yrows = common.rows_from_model(cx["model"], "Y", PJ[shape["pj"]][0], 2) if shape.get("pj") else []
        fails, symptom, detail = concrete_check(shape, rows, yrows, bind)
        if not fails:
            out["status"] = "harness-error"
            out["detail"] = f"counterexample does not reproduce: {shape['e']} / {shape['x']} {bind} {rows} {cx['label']}"
            return out
        vios.append({"site": detail["site"], "summary": f"existing={shape['e']} new={shape['x']} bind={bind} X={rows}"
                     f"{' Y=' + str(yrows) if yrows else ''}: {symptom}: {detail}",
                     "replay": {"shape": to_jsonable({k: shape[k] for k in shape}), "rows": rows, "yrows": yrows,
                                "bind": bind, "symptom": symptom}})
    if vios:
        out["status"] = VIOLATION
        out["violations"] = vios
    elif res.inconclusive or not res.complete:
        out["status"] = INCONCLUSIVE
        out["detail"] = "; ".join(res.notes)[:100]
    elif res.skipped and not res.obligations:
        out["status"] = UNDECIDED
        out["detail"] = res.skipped
    else:
        out["status"] = HOLDS
    return out


def concrete_check(shape, rows, yrows, bind):
    env = Env()
    xcols = tuple(shape.get("cols") or COLS)
    add_abstract_leaf(env, "X", xcols, "it1", None, max_rows=(shape["n"] if shape.get("decl_max") else None))
    if shape.get("pj"):
        add_abstract_leaf(env, "Y", PJ[shape["pj"]][0], "it1", None)
    env.bind = dict(bind)
    try:
        cur, x, com = _interpret(None, env, shape)
    except Skip:
        return False, "", None
    except Exception as e:  # noqa: BLE001
        return True, f"commute raises {type(e).__name__}", {"site": f"{shape['e']}|{shape['x']}/raises:{type(e).__name__}"}
    pair = f"{type(cur.operation).__name__}|{type(x).__name__}"
    E = cur.operation

    def ap(rs, o, colset):
        req = {c.qualified_name for c in o.columns_required}
        if not req <= colset:
            raise IllFormed(f"{o} requires {sorted(req - colset)}")
        from lsst.daf.relation import Calculation, Projection, PartialJoin
        if isinstance(o, Calculation) and o.tag.qualified_name in colset:
            raise IllFormed(f"{o}: tag already present")
        if isinstance(o, PartialJoin):
            fc0 = {c.qualified_name for c in o.fixed.columns}
            cc0 = {c.qualified_name for c in o.binary.common_columns}
            if (colset & fc0) - cc0:
                raise IllFormed(f"{o}: operands share columns {sorted((colset & fc0) - cc0)} that are not join columns")
        if not isinstance(o, PartialJoin):
            _py_apply([{c: 0 for c in colset}], o, yrows)  # the operation reads only columns that are there (also when no row is)
        new = _py_apply(rs, o, yrows)
        if isinstance(o, Calculation):
            colset = colset | {o.tag.qualified_name}
        elif isinstance(o, Projection):
            colset = {c.qualified_name for c in o.columns}
        elif isinstance(o, PartialJoin):
            fc = {c.qualified_name for c in o.fixed.columns}
            cc = {c.qualified_name for c in o.binary.common_columns}
            if (colset & fc) - cc:
                raise IllFormed(f"{o}: operands share columns {sorted((colset & fc) - cc)} that are not join columns")
            colset = colset | fc
        return new, colset

    cols0 = set(xcols)
    try:
        et, ecols = ap(rows, E, cols0) if not _is_calc_overwrite(E, cols0) else (_py_apply(rows, E, yrows), cols0)
        ref, _ = ap(et, x, ecols)
    except IllFormed:
        return False, "", None
    if com.first is None:
        if com.second is not cur.operation or com.done:
            return True, "no-move contract", {"site": f"{pair}/no-move-contract"}
        return False, "", None
    try:
        ft, fcols = ap(rows, com.first, cols0)
    except IllFormed as e:
        return True, "first ill-formed", {"site": f"{pair}/first-ill-formed", "why": str(e)}
    try:
        st, scols = ap(ft, com.second, fcols)
    except IllFormed as e:
        return True, "second ill-formed", {"site": f"{pair}/second-ill-formed", "why": str(e)}
    res = st
    if not com.done:
        try:
            res, _ = ap(st, x, scols)
        except IllFormed as e:
            return True, "original ill-formed after partial move", {"site": f"{pair}/original-ill-formed", "why": str(e)}
    same = (res == ref) if not shape.get("pj") else (common.canon(res) == common.canon(ref))
    if not same:
        return True, "rows differ", {"site": f"{pair}/rows-differ", "commutator": f"first={com.first} second={com.second} "
                                     f"done={com.done}", "expected": ref, "observed": res}
    return False, "", None


def _is_calc_overwrite(o, cols):
    return False


def replay(v):
    r = v["replay"]
    shape = r["shape"]
    shape["e_node"] = from_jsonable(shape["e_node"])
    shape["x_node"] = from_jsonable(shape["x_node"]) if shape["x_node"] is not None else None
    fails, symptom, detail = concrete_check(shape, r["rows"], r["yrows"], r["bind"])
    return fails and symptom == r["symptom"], f"existing={shape['e']} new={shape['x']}: {symptom} {detail}"


def describe(tier):
    return {
        "explanation": "For every ordered pair (existing operation E, new operation X) of operation templates - all six unary "
                       "operation types with all parameter shapes, Identity and PartialJoin as X - the real X.commute(E(T)) runs "
                       "under symx (symbolic slice bounds / literals).  The returned UnaryCommutator is interpreted by relmodel on a "
                       "target T of N symbolic slots (arbitrary presence, order, duplicates): z3 decides second(first(T)) [then X if "
                       "not done] == X(E(T)) as sequences (multisets for joins); well-formedness of first/second and the no-move "
                       "contract are path assertions.",
        "bounds": {"slots": 3 if tier == "quick" else 4, "fixed join operand slots": 2, "literals/slice bounds": "unbounded"},
        "outside": ["targets with more rows than slots", "custom operation subclasses", "joins whose operands share non-common columns"],
        "assumptions": ["relmodel is the intended semantics of the operations (DESIGN 2.3)"],
    }
