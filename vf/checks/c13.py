"""C13 - predicate folding, conjunction flattening and required-column sets are sound."""
from __future__ import annotations

import z3

from .. import exprgen, exprsem
from ..driver import HOLDS, INCONCLUSIVE, UNDECIDED, VIOLATION
from ..prog import Env, to_jsonable, from_jsonable
from ..relmodel import zand
from ..symx import SymInt, explore, zbool, zint

PID = "C13"
LEVEL = "other"
COLS = ("a", "b", "c")


def shapes(tier, seed):
    depth = 2 if tier == "quick" else 4
    out = [{"kind": "pred", "ast": p} for p in exprgen.pred_pool(depth, wide=(tier == "thorough"))]
    out += [{"kind": "expr", "ast": e} for e in exprgen.expr_pool(2 if tier == "quick" else 3)]
    # comparisons between two literals (folding candidates), integers and mixed integer / float
    L = lambda v: ("lit", v)  # noqa: E731
    lits = [(2, 1.5), (1, 1.5), (-1, 0.5), (1.5, 2), (3, 2), (2, 2), (0, -0.0), (1, 2), (-1, -1.0)]
    for x, y in lits:
        for op in ("lt", "le", "gt", "ge", "eq", "ne"):
            p = (op, L(x), L(y))
            out.append({"kind": "pred", "ast": p})
        out.append({"kind": "pred", "ast": ("not", ("lt", L(x), L(y)))})
        out.append({"kind": "pred", "ast": ("or", ("lt", L(x), L(y)), ("and", ("eq", L(x), L(y)), ("plit", True)))})
        if isinstance(x, int):
            out.append({"kind": "pred", "ast": ("or", ("gt", ("ref", "a"), L("$k")), ("eq", L(x), L(y)))})
            out.append({"kind": "pred", "ast": ("and", ("gt", ("ref", "a"), L("$k")), ("not", ("ge", L(x), L(y))))})
    return out


def _bind(ctx, env):
    env.bind["$k"] = ctx.int("k")
    env.bind["$m"] = ctx.int("m")
    return {c: ctx.int(f"row.{c}") for c in COLS}


def run_shape(shape, tier):
    from lsst.daf.relation import Selection, flatten_logical_and

    ast = shape["ast"]
    is_pred = shape["kind"] == "pred"
    notes = {}

    closed = "$" not in repr(ast) and "'ref'" not in repr(ast) and "'pref'" not in repr(ast)

    def h(ctx):
        env = Env(symbolic=not closed)  # closed expressions (literals only) keep their plain Python values
        row = _bind(ctx, env)
        zrow = {c: row[c].t for c in COLS}
        truth = exprsem.z3_of_ast(ast, zrow, env.bind)
        obj = exprsem.lib_of_ast(ast, env.tags, env.val)
        obs = []
        req1 = set(obj.columns_required)
        snapshot = frozenset(req1)
        # sufficiency: evaluate the real iteration callable on a row restricted to columns_required
        it = env.engines["it1"]
        full = {env.tags[c]: row[c] for c in COLS}
        restricted = {t: v for t, v in full.items() if t in req1}
        conv = it.convert_predicate if is_pred else it.convert_column_expression
        try:
            v_restricted = conv(obj)(restricted)
        except KeyError as e:
            return [("columns_required sufficient", False, {"missing": str(e), "declared": sorted(map(str, req1))})]
        if is_pred:
            obs.append(("callable on restricted row == meaning", zbool(v_restricted) == truth, {}))
        else:
            obs.append(("callable on restricted row == meaning", zint(v_restricted) == truth, {}))
        declared = {t.qualified_name for t in req1}
        mentioned = exprsem.ast_columns(ast)
        notes["superfluous"] = sorted(declared - mentioned)
        obs.append(("columns_required within the relation's columns", declared <= set(COLS), {}))
        if is_pred:
            t = obj.as_trivial()
            if t is True:
                obs.append(("as_trivial True => valid", truth, {"as_trivial": True}))
            elif t is False:
                obs.append(("as_trivial False => unsatisfiable", z3.Not(truth), {"as_trivial": False}))
            else:
                obs.append(("as_trivial is None/True/False", t is None, {"as_trivial": repr(t)}))
            fl = flatten_logical_and(obj)
            if fl is False:
                obs.append(("flatten False => unsatisfiable", z3.Not(truth), {"flatten": False}))
            else:
                conj = zand(exprsem.z3_of_lib(q, zrow) for q in fl)
                obs.append(("AND(flatten) <=> original", conj == truth, {"flatten": [str(q) for q in fl]}))
            sel = Selection(obj)
            obs.append(("Selection.predicate <=> supplied", exprsem.z3_of_lib(sel.predicate, zrow) == truth,
                        {"stored": str(sel.predicate)}))
            # stability of the (cached) sets across library calls: selection, compile, and a join that carries the predicate
            _ = it.convert_predicate(sel.predicate)
            _ = sel.columns_required
            exercise_library(env, obj, declared)
            v_again = conv(obj)(restricted)
            obs.append(("callable on restricted row after library calls == meaning", zbool(v_again) == truth, {}))
        req2 = obj.columns_required
        obs.append(("columns_required stable", frozenset(req2) == snapshot and frozenset(obj.columns_required) == snapshot, {}))
        return obs

    res = explore(h, max_paths=2000)
    out = res.as_dict()
    out["shape"] = exprsem.ast_str(ast)
    out["sample"] = {"kind": shape["kind"], "expression": exprsem.ast_str(ast), "paths": res.paths,
                     "obligations": res.obligations, "superfluous_declared_columns": notes.get("superfluous")}
    vios = []
    for cx in res.cex:
        m = cx["model"]
        bind = {"$k": m.get("k", 0), "$m": m.get("m", 0)}
        row = {c: m.get(f"row.{c}", 0) for c in COLS}
        fails, what = concrete_check(shape, row, bind)
        if not fails:
            out["status"] = "harness-error"
            out["detail"] = f"counterexample does not reproduce: {exprsem.ast_str(ast)} row={row} bind={bind} [{cx['label']}]"
            return out
        vios.append({"site": f"{what}: {exprsem.ast_str(ast)}", "summary": f"{exprsem.ast_str(ast)} on row {row} with {bind}: {what}",
                     "replay": {"shape": to_jsonable(shape), "row": row, "bind": bind, "what": what}})
    if vios:
        out["status"], out["violations"] = VIOLATION, vios
    elif res.inconclusive or not res.complete:
        out["status"], out["detail"] = INCONCLUSIVE, "; ".join(res.notes)[:100]
    else:
        out["status"] = HOLDS
    return out


def exercise_library(env, obj, declared):
    """Library calls that receive the predicate: none of them may change a required-column set it returned earlier."""
    from lsst.daf.relation import Join, Selection
    from ..prog import add_abstract_leaf

    it = env.engines["it1"]
    sel = Selection(obj)
    it.convert_predicate(sel.predicate)
    _ = sel.columns_required
    lcols = tuple(c for c in sorted(declared | {"a"}) if c != "c") or ("a",)
    L = add_abstract_leaf(env, "L", lcols, "it1", None)
    R = add_abstract_leaf(env, "R", ("a", "c"), "it1", None)
    try:
        if declared <= (set(lcols) | {"a", "c"}):
            _ = L.join(R, obj).columns
            _ = Join(obj).partial(R).columns_required
            _ = Join(obj).partial(L, is_lhs=True).columns_required
    except Exception:  # noqa: BLE001 - typing of the join is not this check's subject
        pass


def concrete_check(shape, row, bind):
    """Plain re-evaluation with ordinary ints.  -> (fails, which aspect)"""
    from lsst.daf.relation import Selection, flatten_logical_and
    from ..prog import py_of_lib

    ast = shape["ast"]
    env = Env()
    env.bind = dict(bind)
    truth = exprsem.py_of_ast(ast, row, bind)
    obj = exprsem.lib_of_ast(ast, env.tags, env.val)
    it = env.engines["it1"]
    req = set(obj.columns_required)
    restricted = {env.tags[c]: row[c] for c in COLS if env.tags[c] in req}
    is_pred = shape["kind"] == "pred"
    conv = it.convert_predicate if is_pred else it.convert_column_expression
    try:
        v = conv(obj)(restricted)
    except KeyError:
        return True, "columns_required insufficient"
    if (bool(v) if is_pred else v) != truth:
        return True, "callable differs from meaning"
    if is_pred:
        t = obj.as_trivial()
        if t is not None and bool(t) != truth:
            return True, "as_trivial unsound"
        fl = flatten_logical_and(obj)
        if fl is False:
            if truth:
                return True, "flatten False on satisfiable predicate"
        elif all(py_of_lib(q, row) for q in fl) != truth:
            return True, "flatten changes meaning"
        if bool(py_of_lib(Selection(obj).predicate, row)) != truth:
            return True, "Selection normalisation changes meaning"
    if is_pred:
        exercise_library(env, obj, {t.qualified_name for t in req})
        if frozenset(obj.columns_required) != frozenset(req):
            return True, "columns_required changed by a library call"
        try:
            v2 = conv(obj)({env.tags[c]: row[c] for c in COLS if env.tags[c] in set(obj.columns_required)})
        except KeyError:
            return True, "columns_required insufficient after library calls"
        if bool(v2) != truth:
            return True, "callable differs from meaning after library calls"
    if frozenset(obj.columns_required) != frozenset(req):
        return True, "columns_required unstable"
    return False, ""


def replay(v):
    r = v["replay"]
    shape = {"kind": r["shape"]["kind"], "ast": from_jsonable(r["shape"]["ast"])}
    fails, what = concrete_check(shape, r["row"], r["bind"])
    return fails, f"{exprsem.ast_str(shape['ast'])} row={r['row']} bind={r['bind']}: {what or 'agrees'}"


def describe(tier):
    return {
        "explanation": "Every predicate shape up to the stated nesting depth (all node types, 0..3 operands, nested literals, "
                       "containers) and every arithmetic expression shape is built as real library objects with symbolic literals; "
                       "as_trivial / flatten_logical_and / Selection.__post_init__ / columns_required run for real, the real "
                       "iteration-engine callable runs under symx on a symbolic row restricted to columns_required, and z3 decides "
                       "each claim against an independent AST evaluator for all integer rows and literals (unbounded).",
        "bounds": {"predicate nesting depth": 2 if tier == "quick" else 4, "operands": "0..3", "row values / literals": "unbounded integers",
                   "range containers": "fixed literals range(1,6,2), range(0,4,1)"},
        "outside": ["deeper nesting", "non-integer values", "custom functions"],
        "assumptions": ["exprsem.z3_of_ast is the intended meaning of the portable operator set"],
    }
