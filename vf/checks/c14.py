"""C14 - every reachable tree is engine-consistent and structurally well-formed."""
from __future__ import annotations

import z3

from .. import common, exprsem, meprogs, templates
from ..driver import HOLDS, INCONCLUSIVE, UNDECIDED, VIOLATION
from ..prog import Env, IllTyped, add_abstract_leaf, build, cols_of, expression_history, fmt, from_jsonable, ops_of, to_jsonable
from ..symx import Skip, explore

PID = "C14"
LEVEL = "other"
PLAIN = ("calc d=a+b", "proj -b", "sel a>k", "dedup", "sort -b,a", "slice s:e", "mat")


def _apply(acts, label, child, opts, i):
    for lab, need, mk, takes in acts:
        if lab == label:
            try:
                cols = set(cols_of(child, meprogs.LEAFCOLS))
            except IllTyped:
                return None
            if not need(cols):
                return None
            node = mk(child, opts if takes else None, i)
            try:
                cols_of(node, meprogs.LEAFCOLS)
            except IllTyped:
                return None
            return node
    raise KeyError(label)


def programs(tier):
    acts = meprogs.actions("full" if tier == "thorough" else "std", nested=True)
    labels = [a[0] for a in acts]
    unary_with_opts = [a[0] for a in acts if a[3]]
    out = []
    seen = set()

    def add(node):
        k = repr(node)
        if k not in seen:
            seen.add(k)
            out.append(node)

    starts = [("leaf", "X"), ("leaf", "S")]
    optsets = meprogs.option_sets(full=(tier == "thorough"))
    for st in starts:
        # plain sequences of depth <= 2 (3 in thorough) without preferred engines
        level1 = [n for n in (_apply(acts, l, st, None, 1) for l in labels) if n]
        for n1 in level1:
            add(n1)
            for l2 in labels:
                n2 = _apply(acts, l2, n1, None, 2)
                if n2:
                    add(n2)
        # prefix -> transfer -> middle -> final operation with every option set
        pres = [st] + [n for n in (_apply(acts, l, st, None, 1) for l in PLAIN) if n]
        for pre in pres:
            for dest in meprogs.ENGINES:
                x = ("xfer", pre, dest)
                mids = [x] + [n for n in (_apply(acts, l, x, None, 2) for l in PLAIN) if n]
                for mid in mids:
                    for lab in unary_with_opts:
                        for o in optsets:
                            n3 = _apply(acts, lab, mid, o, 3)
                            if n3:
                                add(n3)
                    for other in ("Y", "T", "U", "Z"):
                        for bt in ((True, False), (True, True), (False, False), (False, True)):
                            add(("join", mid, ("leaf", other), None, bt))
                            add(("join", ("leaf", other), mid, None, bt))
                        try:
                            if cols_of(mid, meprogs.LEAFCOLS) == frozenset(meprogs.LEAFCOLS[other]):
                                add(("chain", mid, ("leaf", other)))
                        except IllTyped:
                            pass
        if st[1] == "S":
            N1, N2, N3 = ("leaf", "N1"), ("leaf", "N2"), ("leaf", "N3")
            for l, r in ((N1, N2), (N2, N1), (N1, N3), (N3, N2), (("xfer", N1, "it1"), N2), (("sel", N1, ("gt", ("ref", "a"), ("lit", "$k2"))), N2)):
                add(("join", l, r, None))
                add(("join", l, r, None, (True, True)))
                add(("join", l, r, None, "apply")) if l[0] != "xfer" else None
                add(("dedup", ("join", l, r, ("lt", ("ref", "v"), ("ref", "v")))))
        # Join objects applied directly (BinaryOperation.apply), common columns unresolved at the call
        same = [n for n, (e, cs) in meprogs.LEAVES.items() if e == meprogs.LEAVES[st[1]][0] and n != st[1]]
        for other in same:
            for pred in (None, ("lt", ("ref", "a"), ("ref", "a"))):
                add(("join", st, ("leaf", other), pred, "apply"))
                add(("join", ("leaf", other), ("sel", st, ("gt", ("ref", "a"), ("lit", "$k2"))), pred, "apply"))
                add(("dedup", ("join", ("proj", st, ("a",)), ("leaf", other), pred, "apply")))
        # join predicates holding engine-restricted functions, also where the predicate folds to a constant (a join keeps its
        # predicate object whatever it folds to, so the node must still be supported by its engine - or the call must refuse)
        Ar, Br = ("ref", "a"), ("ref", "b")
        for other in same:
            for kind in ("sq", "it"):
                r = ("rgt", Br, Ar, kind)
                for pred in (r, ("or", r, ("plit", True)), ("not", ("and", r, ("plit", False))), ("and", ("plit", True), ("or", ("plit", True), r))):
                    add(("join", st, ("leaf", other), pred))
                    add(("join", ("leaf", other), st, pred, (True, True)))
                    add(("join", st, ("leaf", other), pred, "apply"))
        # Engine.transfer with a payload (the documented payload-attaching form) on relations that may already live in the destination
        for dest in meprogs.ENGINES:
            add(("xferp", st, dest))
            for d1 in meprogs.ENGINES:
                x1 = ("xfer", st, d1)
                add(("xferp", x1, dest))
                for l in ("sel a>k", "dedup"):
                    m1 = _apply(acts, l, x1, None, 2)
                    if m1 is not None:
                        add(("xferp", m1, dest))
                        add(("sel", ("xferp", m1, dest), ("gt", ("ref", "a"), ("lit", "$k3"))))
        # two transfers: start -> transfer -> one operation -> transfer (back or onwards) -> final operation with every option set
        for dest in meprogs.ENGINES:
            x = ("xfer", st, dest)
            for l in ("calc d=a+b", "sel a>k", "proj -b", "dedup"):
                mid = _apply(acts, l, x, None, 2)
                if mid is None:
                    continue
                for dest2 in meprogs.ENGINES:
                    if dest2 == dest:
                        continue
                    y = ("xfer", mid, dest2)
                    add(y)
                    for lab in unary_with_opts:
                        for o in optsets:
                            n4 = _apply(acts, lab, y, o, 4)
                            if n4:
                                add(n4)
    return out


def shapes(tier, seed):
    progs = programs(tier)
    # group programs into batches so that per-shape overhead stays small
    size = 40
    return [{"progs": progs[i:i + size]} for i in range(0, len(progs), size)]


def make_env(ctx, symbolic=True):
    env = Env(symbolic=symbolic)
    for name, (eng, cols) in meprogs.LEAVES.items():
        add_abstract_leaf(env, name, cols, eng, None)
    return env


def check_tree(rel, env, seen=None):
    """Walk the whole tree (target / lhs / rhs / skip_to): node-local invariants.  -> None or a description."""
    from lsst.daf.relation import (BinaryOperationRelation, Calculation, Chain, Identity, Join, LeafRelation, MarkerRelation,
                                   PartialJoin, Selection, Sort, Transfer, UnaryOperationRelation)
    from lsst.daf.relation._binary_operation import IgnoreOne
    from lsst.daf.relation.sql import Select
    from lsst.daf.relation import sql

    seen = set() if seen is None else seen
    if id(rel) in seen:
        return None
    seen.add(id(rel))
    if isinstance(rel, LeafRelation):
        return None
    if isinstance(rel, UnaryOperationRelation):
        o = rel.operation
        if isinstance(o, (Identity, PartialJoin)):
            return f"placeholder operation {type(o).__name__} appears as a node"
        if rel.engine != rel.target.engine:
            return "unary operation node not in its operand's engine"
        if not exprsem.op_supported(o, rel.engine):
            return f"operation {o} not supported by engine {rel.engine} of the node holding it"
        return check_tree(rel.target, env, seen)
    if isinstance(rel, BinaryOperationRelation):
        o = rel.operation
        if isinstance(o, IgnoreOne):
            return "placeholder operation IgnoreOne appears as a node"
        if rel.lhs.engine != rel.rhs.engine:
            return f"binary operands in different engines: {rel.lhs.engine} / {rel.rhs.engine}"
        if isinstance(o, Join):
            if o.max_columns != o.min_columns:
                return "join node with unresolved common columns"
            cc = o.common_columns
            if not (cc <= rel.lhs.columns and cc <= rel.rhs.columns and all(t.is_key for t in cc)):
                return f"join common columns {set(cc)} are not key columns of both operands"
            if not exprsem.lib_supported(o.predicate, rel.engine):
                return f"join predicate {o.predicate} not supported by engine {rel.engine}"
        return check_tree(rel.lhs, env, seen) or check_tree(rel.rhs, env, seen)
    if isinstance(rel, Transfer):
        if rel.destination == rel.target.engine:
            return "transfer connects an engine to itself"
        return check_tree(rel.target, env, seen)
    if isinstance(rel, Select):
        if not isinstance(rel.engine, sql.Engine):
            return "Select marker outside a SQL engine"
        return check_tree(rel.target, env, seen) or check_tree(rel.skip_to, env, seen)
    if isinstance(rel, MarkerRelation):
        if rel.engine != rel.target.engine:
            return "marker changes engine without being a transfer"
        return check_tree(rel.target, env, seen)
    return f"unknown relation node {type(rel).__name__}"


def noop_problems(rel, env=None):
    if env is not None:
        for name, eng in env.engines.items():
            if eng == rel.engine:
                continue
            for b, t, r in ((True, True, False), (False, True, False), (True, False, True), (False, False, True), (True, False, False)):
                kw = dict(preferred_engine=eng, backtrack=b, transfer=t, require_preferred_engine=r)
                flags = f"preferred_engine={name}{' backtrack' if b else ''}{' transfer' if t else ''}{' require' if r else ''}"
                try:
                    if rel.with_only_columns(rel.columns, **kw) is not rel:
                        return f"with_only_columns(all columns, {flags}) does not return the relation itself"
                    if rel.sorted([], **kw) is not rel:
                        return f"sorted([], {flags}) does not return the relation itself"
                except Exception as e:  # noqa: BLE001
                    return f"no-op call with {flags} raises {type(e).__name__}"
            break
    if rel.with_only_columns(rel.columns) is not rel:
        return "with_only_columns(all columns) does not return the relation itself"
    if rel.sorted([]) is not rel:
        return "sorted([]) does not return the relation itself"
    if rel.transferred_to(rel.engine) is not rel:
        return "transferred_to(current engine) does not return the relation itself"
    return None


def examine(prog, env):
    """-> (outcome, problem) ; outcome in tree / rejected / bad-exception"""
    from lsst.daf.relation import ColumnError, EngineError, RelationalAlgebraError

    expression_history(env, prog)
    try:
        rel = build(prog, env)
    except (ColumnError, EngineError) as e:
        return "rejected", None
    except RelationalAlgebraError as e:
        if "row order" in str(e):
            return "rejected", None
        return "bad-exception", f"{type(e).__name__}: {e}"[:160]
    except Exception as e:  # noqa: BLE001
        return "bad-exception", f"{type(e).__name__}: {e}"[:160]
    p = check_tree(rel, env)
    if p is None:
        try:
            p = noop_problems(rel, env)
        except Exception as e:  # noqa: BLE001
            p = f"no-op call raises {type(e).__name__}: {e}"[:160]
    return "tree", p


def run_shape(shape, tier):
    progs = shape["progs"]
    tot = {"paths": 0, "queries": 0, "solver_s": 0.0, "obligations": 0, "discharged": 0, "inconclusive": 0}
    functions = set()
    vios = []
    counts = {"tree": 0, "rejected": 0}
    sample = None
    for prog in progs:
        params, cons = meprogs.params_for(prog)
        seen_outcomes = []

        def h(ctx, prog=prog, params=params, cons=cons, seen_outcomes=seen_outcomes):
            env = make_env(ctx)
            templates.declare(ctx, env, params, cons)
            outcome, problem = examine(prog, env)
            seen_outcomes.append(outcome)
            return [("well-formed tree or documented rejection", problem is None, {"problem": problem, "outcome": outcome})]

        res = explore(h, max_paths=200, wall_s=60, profile=(sample is None))
        for k in tot:
            tot[k] += getattr(res, k) if k != "inconclusive" else res.inconclusive
        functions |= res.functions
        if "tree" in seen_outcomes:
            counts["tree"] += 1
        elif seen_outcomes:
            counts["rejected"] += 1
        if sample is None and "tree" in seen_outcomes:
            sample = {"program": fmt(prog), "paths": res.paths, "outcomes": sorted(set(seen_outcomes))}
        for cx in res.cex[:1]:
            bind = templates.bind_concrete(params, cx["model"])
            fails, symptom = concrete_check(prog, bind)
            if not fails:
                return {"status": "harness-error", "detail": f"counterexample does not reproduce: {fmt(prog)} {bind} {cx['info']}", **tot}
            mprog = common.minimise(prog, lambda p: concrete_check(p, bind)[1] == symptom)
            vios.append({"site": f"{_sig(mprog)}/{symptom}", "summary": f"{fmt(mprog)} bind={bind}: {symptom}",
                         "replay": {"prog": to_jsonable(mprog), "bind": bind, "symptom": symptom}})
    out = dict(tot)
    out["functions"] = sorted(functions)
    out["shape"] = fmt(progs[0]) + f" (+{len(progs) - 1} more)"
    out["sample"] = sample or {"program": fmt(progs[0]), "note": "all programs of this batch were rejected at construction"}
    out["programs"] = len(progs)
    out["accepted"] = counts["tree"]
    if vios:
        out["status"], out["violations"] = VIOLATION, vios
    elif tot["inconclusive"]:
        out["status"], out["detail"] = INCONCLUSIVE, "budget"
    else:
        out["status"] = HOLDS
    return out


def _sig(prog):
    """Operation sequence with engine information (transfers and preferred-engine options are part of the site)."""
    def walk(n):
        op = n[0]
        if op == "leaf":
            return [f"{n[1]}@{meprogs.LEAVES.get(n[1], ('?',))[0]}"]
        if op in ("join", "chain"):
            return walk(n[1]) + walk(n[2]) + [op]
        s = op
        if op == "xfer":
            s = f"to:{n[2]}"
        if op == "xferp":
            s = f"to+payload:{n[2]}"
        o = n[-1] if isinstance(n[-1], tuple) and len(n[-1]) == 4 and isinstance(n[-1][1], bool) else None
        if o:
            s += f"@{o[0]}{'b' if o[1] else ''}{'t' if o[2] else ''}{'r' if o[3] else ''}"
        return walk(n[1]) + [s]
    return ">".join(walk(prog))


def concrete_check(prog, bind):
    env = make_env(None, symbolic=False)
    env.bind = dict(bind)
    outcome, problem = examine(prog, env)
    if problem is None:
        return False, ""
    return True, (problem.split(":")[0] if outcome == "bad-exception" else problem)[:90]


def replay(v):
    r = v["replay"]
    prog = from_jsonable(r["prog"])
    fails, symptom = concrete_check(prog, r["bind"])
    return fails and symptom == r["symptom"], f"{fmt(prog)} bind={r['bind']}: {symptom or 'well-formed'}"


def describe(tier):
    return {
        "explanation": "Programs over three engines (two iteration, one SQL) - plain sequences, and prefix -> transfer -> middle -> final "
                       "operation with every preferred_engine/backtrack/transfer/require_preferred_engine combination, joins/chains with "
                       "leaves of every engine, engine-restricted column functions - are built through the real factories under symx "
                       "(slice bounds and literals symbolic, so Select slot logic forks).  On every path the call must either raise the "
                       "documented class or return a tree whose every node (target/lhs/rhs/skip_to) satisfies the engine-consistency and "
                       "well-formedness invariants; the documented no-op calls must return the relation itself.",
        "bounds": {"programs": "depth 2 exhaustive over the action menu; depth <=4 of the shape prefix(<=1) -> transfer -> middle(<=1) -> final",
                   "slice bounds": "0..4", "engines": 3},
        "outside": ["deeper programs", "custom engines / operations"],
        "assumptions": [],
        "rule": "one evaluation = one batch of up to 40 programs, each explored on all paths; distinct_nontrivial counts batches in which at least "
                "one program was accepted and walked",
    }
