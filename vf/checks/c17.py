"""C17 - SQL conform is idempotent, content-preserving and keeps SELECT markers coherent."""
from __future__ import annotations

import z3

from .. import common, exprsem, relmodel, sqlmodel, sqlprogs, templates
from ..driver import HOLDS, INCONCLUSIVE, UNDECIDED, VIOLATION
from ..prog import (Env, IllFormed, IllTyped, build, cols_of, fmt, from_jsonable, make_op, ops_of, pyeval, pytree, sem_seq, sem_tree,
                    shared_nonkey, to_jsonable)
from ..symx import Skip, explore

PID = "C17"
LEVEL = "translation_validation"
RAW3 = ("calc d", "proj a", "proj -b", "sel a>k", "dedup", "sort total", "sort a", "slice s:e", "slice s:")


def shapes(tier, seed):
    out = []
    n = 2 if tier == "quick" else 3
    hi = n + 2
    for node, params, cons in sqlprogs.unary_programs(tier, hi) + sqlprogs.binary_programs(tier, 4) + sqlprogs.nested_programs(tier, 4):
        out.append({"kind": "api", "prog": node, "params": params, "cons": cons, "n": 1})
    X = ("leaf", "X")
    for d in (1, 2):
        for labs, node, p in templates.unary_sequences(X, sqlprogs.LEAFCOLS, d, "std", slice_hi=hi):
            out.append({"kind": "raw", "prog": node, "params": p.params, "cons": p.cons, "n": n})
    for labs, node, p in templates.unary_sequences(X, sqlprogs.LEAFCOLS, 3, "std", slice_hi=hi, labels=RAW3):
        out.append({"kind": "raw", "prog": node, "params": p.params, "cons": p.cons, "n": n})
    bins = sqlprogs.binary_programs("quick", 4)
    bins = [b for b in bins if len(ops_of(b[0])) >= 3][::2] + [b for b in bins if len(ops_of(b[0])) < 3][::3]
    for node, params, cons in bins + sqlprogs.nested_programs(tier, 4):
        out.append({"kind": "raw", "prog": node, "params": params, "cons": cons, "n": 2})
    return out


def cost(shape):
    ops = ops_of(shape["prog"])
    return (1 + 8 * ops.count("slice") + 3 * ops.count("sort") + 2 * ops.count("join")) * shape["n"] ** 2 * (2 if shape["kind"] == "raw" else 1)


# ------------------------------------------------------------------ raw trees (no conformation)


def build_raw(node, env):
    """Assemble the tree bottom-up from node objects, bypassing every engine hook."""
    from lsst.daf.relation import BinaryOperationRelation, Chain, Join, Predicate, UnaryOperationRelation

    op = node[0]
    if op == "leaf":
        return env.leaves[node[1]].skip_to  # the bare LeafRelation
    if op == "chain":
        l, r = build_raw(node[1], env), build_raw(node[2], env)
        o = Chain()
        return BinaryOperationRelation(operation=o, lhs=l, rhs=r, columns=o.applied_columns(l, r))
    if op == "join":
        l, r = build_raw(node[1], env), build_raw(node[2], env)
        common = frozenset(t for t in l.columns & r.columns if t.is_key)
        pred = exprsem.lib_of_ast(node[3], env.tags, env.val) if node[3] is not None else Predicate.literal(True)
        o = Join(pred, min_columns=common, max_columns=common)
        return BinaryOperationRelation(operation=o, lhs=l, rhs=r, columns=o.applied_columns(l, r))
    child = build_raw(node[1], env)
    o = make_op(node, env)
    return UnaryOperationRelation(operation=o, target=child, columns=o.applied_columns(child))


# ------------------------------------------------------------------ marker coherence


def walk_selects(rel, out, seen=None):
    from lsst.daf.relation import BinaryOperationRelation, MarkerRelation, UnaryOperationRelation
    from lsst.daf.relation.sql import Select

    seen = set() if seen is None else seen
    if id(rel) in seen:
        return out
    seen.add(id(rel))
    if isinstance(rel, Select):
        out.append(rel)
        walk_selects(rel.target, out, seen)
        walk_selects(rel.skip_to, out, seen)
    elif isinstance(rel, UnaryOperationRelation):
        walk_selects(rel.target, out, seen)
    elif isinstance(rel, BinaryOperationRelation):
        walk_selects(rel.lhs, out, seen)
        walk_selects(rel.rhs, out, seen)
    elif isinstance(rel, MarkerRelation):
        walk_selects(rel.target, out, seen)
    return out


def coherent(sel):
    """None if the operation nodes between target and skip_to are, in order, the recorded sort, projection,
    deduplication, slice (a recorded operation that does nothing may be absent); else a description."""
    from lsst.daf.relation import BinaryOperationRelation, Chain, Projection, UnaryOperationRelation

    chain = []
    r = sel.target
    steps = 0
    while r is not sel.skip_to:
        if not isinstance(r, UnaryOperationRelation) or steps > 8:
            return "skip_to is not upstream of target"
        chain.append(r.operation)
        r = r.target
        steps += 1
    chain.reverse()
    expect = []
    if sel.sort.terms:
        expect.append(("sort", sel.sort))
    if sel.projection is not None:
        expect.append(("projection", sel.projection))
    if sel.deduplication is not None:
        expect.append(("deduplication", sel.deduplication))
    if sel.slice.start or sel.slice.stop is not None:
        expect.append(("slice", sel.slice))
    i = 0
    for kind, o in expect:
        if i < len(chain) and chain[i] == o:
            i += 1
        elif kind == "projection":
            continue  # a projection onto all columns of what it is applied to does nothing and may be absent
        else:
            return f"recorded {kind} missing between target and skip_to"
    if i != len(chain):
        return f"unrecorded operation {chain[i]} between target and skip_to"
    is_chain = isinstance(sel.skip_to, BinaryOperationRelation) and isinstance(sel.skip_to.operation, Chain)
    if bool(sel.is_compound) != is_chain:
        return f"is_compound={sel.is_compound} but skip_to {'is' if is_chain else 'is not'} a chain"
    return None


def structural_problems(sq, rel):
    from lsst.daf.relation.sql import Select

    if not isinstance(rel, Select):
        return "factory result is not a Select"
    if sq.conform(rel) is not rel:
        return "conform(x) is not x"
    for s in walk_selects(rel, []):
        msg = coherent(s)
        if msg:
            return msg
    return None


def run_shape(shape, tier):
    from lsst.daf.relation import RelationalAlgebraError

    prog, n, kind = shape["prog"], shape["n"], shape["kind"]
    info = {}
    cache = {}

    def h(ctx):
        env = Env(symbolic=True)
        sqlprogs.setup_leaves(ctx, env, prog, n)
        templates.declare(ctx, env, shape["params"], shape["cons"])
        sqlprogs.history(env, prog)
        sq = env.engines["sq"]
        try:
            if kind == "api":
                rel = build(prog, env)
            else:
                raw = build_raw(prog, env)
                rel = sq.conform(raw)
        except RelationalAlgebraError as e:
            raise Skip(f"rejected: {type(e).__name__}{' (row order)' if 'row order' in str(e) else ''}")
        except Exception as e:  # noqa: BLE001
            if kind == "raw":
                return [("conform accepts a well-formed raw tree", False, {"exc": f"{type(e).__name__}: {e}"[:160]})]
            raise Skip(f"construction fails: {type(e).__name__} (see C05/C08)")
        info.setdefault("tree", str(rel))
        msg = structural_problems(sq, rel)
        obs = [("conformed tree is a fixed point of conform with coherent SELECT markers", msg is None, {"why": msg, "tree": str(rel)})]
        want_cols = set(cols_of(prog, sqlprogs.LEAFCOLS))
        have_cols = {t.qualified_name for t in rel.columns}
        obs.append(("the result has the columns of the operation sequence", have_cols == want_cols,
                    {"columns": sorted(have_cols), "expected": sorted(want_cols), "tree": str(rel)}))
        if kind == "raw":
            if "ref" not in cache:
                cache["ref"] = relmodel.unordered(sem_seq(prog, env, prefer="r"))
            ref = cache["ref"]
            try:
                got = relmodel.unordered(sem_tree(rel, env, prefer="r"))
            except IllFormed as e:
                return obs + [("conformed tree is well-formed", False, {"why": str(e), "tree": str(rel)})]
            except Skip as e:
                if "indeterminate" not in str(e):
                    raise
                # the raw tree has a determinate meaning but the conformed one slices a relation without order: compare under
                # the positional reading (slot order = the list order of the concrete replay)
                env.count_mode = True
                try:
                    got = relmodel.unordered(sem_tree(rel, env, prefer="r"))
                finally:
                    env.count_mode = False
            obs.append(("conform preserves rows", relmodel.mset_eq(got, ref), {"tree": str(rel)}))
            try:
                ex = sq.to_executable(build_raw(prog, env))
                sqlt = relmodel.unordered(sqlprogs.strip_ignored(sqlmodel.select(ex, env.tables)))
                obs.append(("compiled raw tree has the raw tree's rows", relmodel.mset_eq(sqlt, ref) if sqlt.cols == ref.cols else False, {}))
            except (sqlmodel.OutsideModel, sqlmodel.SqlInvalid) as e:
                info["sql-undecided"] = str(e)
            except Exception as e:  # noqa: BLE001
                info["compile"] = f"{type(e).__name__} (see C08)"
        return obs

    res = explore(h, max_paths=600 if len(shape["params"]) < 6 else 4000, wall_s=150)
    out = res.as_dict()
    out["shape"] = {"kind": kind, "prog": fmt(prog)}
    out["sample"] = {"kind": kind, "program": fmt(prog), "conformed": info.get("tree"), "paths": res.paths}
    vios = []
    for cx in res.cex:
        m = cx["model"]
        bind = templates.bind_concrete(shape["params"], m)
        rows = {name: (common.rows_from_model(m, name, sqlprogs.table_cols(name), n) if name != "I" else [{}]) for name in sqlprogs.leaves_in(prog)}
        fails, symptom, detail = concrete_check(prog, kind, rows, bind)
        if not fails:
            out["status"] = "harness-error"
            out["detail"] = f"counterexample does not reproduce: {kind} {fmt(prog)} {bind} {rows} [{cx['label']}] {cx['info']}"
            return out
        mprog = common.minimise(prog, lambda p: concrete_check(p, kind, rows, bind)[1] == symptom)
        vios.append({"site": f"{kind}:{'>'.join(ops_of(mprog))}/{symptom}",
                     "summary": f"{kind} {fmt(mprog)} bind={bind}: {symptom} {concrete_check(mprog, kind, rows, bind)[2]}",
                     "replay": {"prog": to_jsonable(mprog), "kind": kind, "rows": rows, "bind": bind, "symptom": symptom}})
        break
    if vios:
        out["status"], out["violations"] = VIOLATION, vios
    elif res.inconclusive or not res.complete:
        out["status"], out["detail"] = INCONCLUSIVE, "; ".join(res.notes)[:100]
    elif res.skipped and not res.obligations:
        out["status"], out["detail"] = UNDECIDED, res.skipped
    else:
        out["status"] = HOLDS
    return out


def concrete_check(prog, kind, rows, bind):
    from lsst.daf.relation import RelationalAlgebraError

    env = sqlprogs.concrete_env(prog, bind)
    sq = env.engines["sq"]
    try:
        rel = build(prog, env) if kind == "api" else sq.conform(build_raw(prog, env))
    except RelationalAlgebraError:
        return False, "rejected", None
    except Exception as e:  # noqa: BLE001
        return (kind == "raw"), f"conform-raises:{type(e).__name__}", str(e)[:120]
    msg = structural_problems(sq, rel)
    if msg:
        return True, "marker:" + msg.split(" between")[0].replace("recorded ", "").replace(" ", "-")[:60], {"why": msg, "tree": str(rel)}
    from ..prog import tree_problem
    tp = tree_problem(rel)
    if tp:
        return True, "tree-ill-formed", {"why": tp[:200], "tree": str(rel)}
    if {t.qualified_name for t in rel.columns} != set(cols_of(prog, sqlprogs.LEAFCOLS)):
        return True, "columns-differ", {"tree": str(rel), "columns": sorted(str(t) for t in rel.columns), "expected": sorted(cols_of(prog, sqlprogs.LEAFCOLS))}
    if kind == "raw" and sqlprogs.determinate(prog, bind):
        exp = pyeval(prog, rows, bind, env.tags, prefer="r")
        got = pytree(rel, rows, prefer="r")
        if common.canon(got) != common.canon(exp):
            return True, "conform-changes-rows", {"tree": str(rel), "expected": exp, "observed": got}
        try:
            env2 = sqlprogs.concrete_env(prog, bind)
            ex = env2.engines["sq"].to_executable(build_raw(prog, env2))
            sgot = [{k: v for k, v in r.items() if k != "IGNORED"} for r in sqlmodel.run_sqlite(ex, env2.metadata, rows)]
        except Exception:  # noqa: BLE001 - C08's business
            return False, "", None
        if common.canon(sgot) != common.canon(exp):
            return True, "compiled-raw-rows-differ", {"expected": exp, "observed": sgot}
    return False, "", None


def replay(v):
    r = v["replay"]
    prog = from_jsonable(r["prog"])
    fails, symptom, detail = concrete_check(prog, r["kind"], r["rows"], r["bind"])
    return fails and symptom == r["symptom"], f"{r['kind']} {fmt(prog)}: {symptom} {detail}"


def describe(tier):
    return {
        "explanation": "(api) every SQL-engine program of the C02/C08 space is built through the factories under symx; on every path the "
                       "returned tree must be a Select, a fixed point of conform (identical object), and every Select marker in it must be "
                       "coherent (operations between target and skip_to = recorded sort, projection, deduplication, slice in order; "
                       "is_compound <=> skip_to is a chain).  (raw) trees assembled bottom-up from node objects without any engine hook are "
                       "conformed; z3 decides multiset equality of relmodel(conform(raw)) and of the SMT semantics of the compiled raw tree "
                       "with direct evaluation, for all table contents within the slot bound.",
        "bounds": {"slots per leaf": "2 (quick) / 3 (thorough)", "raw trees": "unary depth 1-2 exhaustive over templates, 3 over 8 templates; every "
                   "third binary program and the nested shapes", "api trees": "the C02 program space"},
        "outside": ["indeterminate raw trees (slice without a total sort) are checked structurally only"],
        "assumptions": ["relmodel / sqlmodel as in C02"],
    }
