"""C01 - the iteration engine executes the applied operation sequence exactly."""
from __future__ import annotations

import z3

from .. import common, relmodel, templates
from ..driver import HOLDS, INCONCLUSIVE, UNDECIDED, VIOLATION
from ..prog import Env, IllTyped, build, cols_of, fmt, from_jsonable, ops_of, pyeval, sem_seq, to_jsonable
from ..symx import Skip, explore, zint

PID = "C01"
LEVEL = "other"
LEAVES = {"X": ("a", "b", "c"), "Y": ("a", "b", "c"), "V": ("a", "v")}
SPECIAL = {"I": ("identity", ()), "0": ("doomed", ("a", "b", "c"))}
LEAFCOLS = {**LEAVES, **{k: v[1] for k, v in SPECIAL.items()}}
D3 = ("slice s:e", "sort b,-a", "sel a>k", "dedup", "proj -a", "calc d", "sort -a", "slice s:")
D3B = ("slice s:e", "sort a", "sel a=b", "dedup", "proj a", "calc e", "sel false", "proj none")
D3Q = ("slice s:e", "sort b,-a", "sel a>k", "dedup", "proj -a")
D3BQ = ("slice s:", "sort a", "calc d", "sel false", "proj none")


from ..prog import _OPS as _ALL_OPS  # noqa: E402


def _leaves_in(node, acc):
    if node[0] == "leaf":
        acc.add(node[1])
    else:
        for x in node[1:3]:
            if isinstance(x, tuple) and x and x[0] in _ALL_OPS:
                _leaves_in(x, acc)
    return acc


def shapes(tier, seed):
    N = 3 if tier == "quick" else 4
    out = []

    def add(node, p, nrows, kind="seq", decl="exact", tag=""):
        try:
            cols_of(node, LEAFCOLS)
        except IllTyped:
            return
        out.append({"prog": node, "params": p.params, "cons": p.cons, "nrows": nrows, "kind": kind, "decl": decl, "tag": tag})

    X = ("leaf", "X")
    hi = N + 2
    # (a) one-step over every upstream iterable kind, (b) end-to-end depth 2, all N' <= N
    for d in (1, 2):
        level = "full" if (d == 1 or tier == "thorough") else "std"
        for labs, node, p in templates.unary_sequences(X, LEAFCOLS, d, level, slice_hi=hi):
            for n in range(0, N + 1):
                if n < N and d == 2 and tier == "quick" and n not in (0, 1):
                    continue
                add(node, p, {"X": n})
            if d == 1:
                for kind in ("map",):
                    for n in (0, 2, N):
                        add(node, p, {"X": n}, kind=kind)
                for decl in ("loose", "upper"):
                    for n in (0, 1, N):
                        add(node, p, {"X": n}, decl=decl)
    # upstream kinds for the one-step family: mapping / generator / chain / materialized / transferred
    ups = [("dedup", X), ("chain", X, ("leaf", "Y")), ("mat", ("sel", X, ("gt", ("ref", "a"), ("lit", "$k0")))),
           ("xfer", X, "it2"), ("xfer", ("calc", X, "d", ("neg", ("ref", "a"))), "it2"),
           ("chain", X, ("leaf", "0")), ("chain", ("leaf", "0"), X), ("chain", ("sel", X, ("plit", False)), ("leaf", "Y")),
           ("mat", ("dedup", ("proj", X, ("a",))))]
    for up in ups:
        for labs, node, p in templates.unary_sequences(up, LEAFCOLS, 1, "std", slice_hi=hi):
            if "$k0" in str(up):
                p.params["$k0"] = [None, None]
            for n in ((0, 3) if tier == "quick" else (0, 2, N)):
                add(node, p, {"X": n, "Y": 2})
    # depth 3 curated
    for labels in ((D3Q, D3BQ) if tier == "quick" else (D3, D3B)):
        for labs, node, p in templates.unary_sequences(X, LEAFCOLS, 3, "full", slice_hi=hi, labels=labels):
            for n in ((3,) if tier == "quick" else (0, 2, 3)):
                add(node, p, {"X": n})
    # the same leaf (one payload object) used in two branches: aliasing between branches must not be observable
    SA, SD = ("sort", X, ((("ref", "a"), True),)), ("sort", X, ((("ref", "b"), False), (("ref", "a"), True)))
    reuse = [("chain", X, SA), ("chain", SA, X), ("chain", SD, ("slice", X, 0, 2)), ("chain", ("slice", SA, 0, 2), ("slice", X, 0, 2)),
             ("chain", ("dedup", X), SD), ("chain", ("mat", SA), X), ("chain", ("sel", X, ("gt", ("ref", "a"), ("lit", "$k0"))), SD),
             ("chain", SD, ("sort", X, ((("ref", "a"), False),)))]
    for node in reuse:
        p = templates.P()
        if "$k0" in repr(node):
            p.params["$k0"] = [None, None]
        for n in (2, 3):
            add(node, p, {"X": n})
            add(node, p, {"X": n}, decl="loose")
    # non-key column with the documented functional dependency
    V = ("leaf", "V")
    for labs, node, p in templates.unary_sequences(V, LEAFCOLS, 2, "std", slice_hi=hi,
                                                   labels=("dedup", "sort a", "sel a>k", "slice s:e", "sort -a", "proj a")):
        add(node, p, {"V": 3}, tag="nonkey")
    # zero-column and identity
    for labs, node, p in templates.unary_sequences(("proj", X, ()), LEAFCOLS, 2, "std", slice_hi=hi):
        for n in (0, 1, 3):
            add(node, p, {"X": n}, decl="loose")
            add(node, p, {"X": n})
    # operations applied with the source engine preferred (backtracking across an iteration-to-iteration transfer)
    T2 = ("xfer", X, "it2")
    back = ("it1", True, False, False)
    Aa, Bb = ("ref", "a"), ("ref", "b")
    for mid in (("sort", T2, ((Aa, True),)), ("sort", ("calc", T2, "d", ("add", Aa, Bb)), ((Bb, False), (Aa, True))), ("sel", T2, ("gt", Aa, ("lit", "$k0"))),
                ("dedup", ("proj", T2, ("a", "b")))):
        for fin in (("slice", mid, 0, 2, back), ("slice", mid, 1, 2, back), ("sort", mid, ((Aa, False),), back), ("sort", mid, ((Bb, True), (Aa, False)), back),
                    ("sel", mid, ("lt", Aa, Bb), back)):
            p = templates.P()
            if "$k0" in repr(fin):
                p.params["$k0"] = [None, None]
            add(fin, p, {"X": 3}, tag="backtrack")
    # ... and the same where the transfer already carries a payload (the tree an earlier Processor.process returned; the payload is the
    # lazy iterable a transfer hook may hand over): the operation moved upstream must not be answered from the old payload
    P2 = ("proc", T2)
    PC = ("proc", ("xfer", ("chain", X, ("leaf", "Y")), "it2"))
    for mid in (P2, ("sel", P2, ("gt", Aa, ("lit", "$k0"))), ("sort", P2, ((Aa, True),)), PC):
        for fin in (("sel", mid, ("lt", Aa, Bb), back), ("slice", mid, 0, 2, back), ("sort", mid, ((Bb, True), (Aa, False)), back), ("proj", mid, ("a", "b"), back),
                    ("chain", mid, ("xfer", ("leaf", "Y"), "it2")), ("dedup", ("chain", mid, mid))):
            p = templates.P()
            if "$k0" in repr(fin):
                p.params["$k0"] = [None, None]
            add(fin, p, {"X": 3, "Y": 2} if "'Y'" in repr(fin) else {"X": 3}, tag="backtrack-processed")
    # selection by membership in an integer range: a box of (start, stop, step) including descending, empty and unaligned ranges
    vals = (-4, -1, 0, 1, 2, 5, 6) if tier == "quick" else tuple(range(-6, 8))
    steps = (1, 2, 3, 4, -1, -2, -3, -4) if tier == "quick" else tuple(s for s in range(-5, 6) if s)
    for start in vals:
        for stop in vals:
            for step in steps:
                add(("sel", X, ("inrange", ("ref", "a"), start, stop, step)), templates.P(), {"X": 1}, tag="range")
    for (start, stop, step) in ((6, 0, -4), (1, 8, 3), (0, -7, -3), (5, 5, 1)):
        add(("sel", X, ("not", ("inrange", ("add", ("ref", "a"), ("ref", "b")), start, stop, step))), templates.P(), {"X": 3}, tag="range")
        add(("calc", ("sel", X, ("inrange", ("neg", ("ref", "a")), start, stop, step)), "d", ("add", ("ref", "a"), ("ref", "b"))), templates.P(), {"X": 2}, tag="range")
    if tier == "thorough":
        for labs, node, p in templates.unary_sequences(X, LEAFCOLS, 4, "full", slice_hi=hi,
                                                       labels=("slice s:e", "sort b,-a", "sel a>k", "dedup", "proj -a")):
            add(node, p, {"X": 3})
    return out


def cost(shape):
    ops = ops_of(shape["prog"])
    n = sum(shape["nrows"].values())
    return (1 + 6 * ops.count("sort") + 2 * ops.count("slice") + ops.count("dedup") + ops.count("sel")) * (n ** 2)


def _setup(ctx, env, shape, rows_out):
    used = sorted(_leaves_in(shape["prog"], set()))
    for name in used:
        if name in SPECIAL:
            env.add_special_leaf(name, SPECIAL[name][0], "it1", SPECIAL[name][1])
            continue
        cols = LEAVES[name]
        n = shape["nrows"].get(name, 2)
        rows = [{c: ctx.int(f"{name}.{c}{i}") for c in cols} for i in range(n)]
        rows_out[name] = rows
        if name == "V":  # documented contract: non-key column functionally determined by the key
            for i in range(n):
                for j in range(i + 1, n):
                    ctx.assume(z3.Implies(rows[i]["a"].t == rows[j]["a"].t, rows[i]["v"].t == rows[j]["v"].t))
        kind = shape["kind"] if name == "X" else "seq"
        decl = shape["decl"] if name == "X" else "exact"
        _add_leaf(env, name, cols, rows, kind, decl, ctx)


def _add_leaf(env, name, cols, rows, kind, decl, ctx=None):
    from lsst.daf.relation import iteration

    tags = [env.tags[c] for c in cols]
    real_rows = [{env.tags[c]: r[c] for c in cols} for r in rows]
    payload = None
    if kind == "map":
        key = tuple(t for t in frozenset(tags) if t.is_key)
        if ctx is not None:
            for i in range(len(rows)):
                for j in range(i + 1, len(rows)):
                    ctx.assume(z3.Or(*[zint(rows[i][t.qualified_name]) != zint(rows[j][t.qualified_name]) for t in key]))
        payload = iteration.RowMapping(key, {i: r for i, r in enumerate(real_rows)})
    if decl == "exact":
        env.add_iter_leaf(name, cols, rows, payload=payload)
    elif decl == "loose":
        env.add_iter_leaf(name, cols, rows, min_rows=0, max_rows=None, payload=payload)
    else:
        env.add_iter_leaf(name, cols, rows, min_rows=0, max_rows=len(rows) + 1, payload=payload)


def _execute(rel):
    return [dict(r) for r in rel.engine.execute(rel)]


def _history(env, prog):
    """Earlier life of the same engine objects: the same operation sequence over leaves of the same names and columns that
    were empty then (an equal-but-not-identical tree - leaves compare by engine, name and columns) is built, inspected and
    executed.  Anything remembered per *equal* relation is remembered before the tree under test exists."""
    env.history = False  # this check's own, stronger history replaces the generic one of prog.build
    for name in sorted(_leaves_in(prog, set())):
        if name in SPECIAL:
            env.add_special_leaf(name, SPECIAL[name][0], "it1", SPECIAL[name][1])
        else:
            env.add_iter_leaf(name, LEAVES[name], [], min_rows=0, max_rows=None)
    try:
        d = build(prog, env)
        _ = (d.min_rows, d.max_rows, d.columns, str(d))
        _execute(d)
    except Exception:  # noqa: BLE001 - the earlier tree is not the subject
        pass
    env.leaves.clear()
    env.tables.clear()


def run_shape(shape, tier):
    out = _run_shape(shape, tier, 3000 if tier == "quick" else 12000)
    if out["status"] == INCONCLUSIVE and max(shape["nrows"].values()) > 2:
        # retry once at the next smaller bound so that the bound actually proved is what gets reported
        small = dict(shape)
        small["nrows"] = {k: min(v, 2) if k == "X" else min(v, 1) for k, v in shape["nrows"].items()}
        first = out
        out = _run_shape(small, tier, 6000 if tier == "quick" else 12000)
        for k in ("paths", "queries", "solver_s", "obligations", "discharged"):
            out[k] = (out.get(k) or 0) + (first.get(k) or 0)
        out["discharged"] -= first.get("discharged") or 0
        out["obligations"] -= first.get("obligations") or 0
        out["bound_reduced"] = True
        if out["status"] == HOLDS:
            out["sample"]["note"] = f"path budget exceeded at {shape['nrows']}; decided at {small['nrows']}"
    return out


def _run_shape(shape, tier, max_paths):
    prog = shape["prog"]
    cache = {}
    info = {}

    def h(ctx):
        env = Env(symbolic=True)
        rows = {}
        templates.declare(ctx, env, shape["params"], shape["cons"])
        _history(env, prog)
        _setup(ctx, env, shape, rows)
        try:
            rel = build(prog, env)
            got = _execute(rel)
        except Exception as e:  # noqa: BLE001
            return [("executes", False, {"exc": f"{type(e).__name__}: {e}"[:200]})]
        info.setdefault("tree", str(rel))
        if "ref" not in cache:
            cache["ref"] = sem_seq(prog, env)
        ref = cache["ref"]
        got_z = [{t.qualified_name: zint(v) for t, v in r.items()} for r in got]
        return [("rows", relmodel.seq_equals_list(ref, got_z), {"n": len(got)})]

    res = explore(h, max_paths=max_paths, wall_s=120 if tier == "quick" else 900)
    out = res.as_dict()
    out["shape"] = {"prog": fmt(prog), "nrows": shape["nrows"], "kind": shape["kind"], "decl": shape["decl"]}
    out["sample"] = {"program": fmt(prog), "tree": info.get("tree"), "leaf rows": shape["nrows"], "payload": shape["kind"],
                     "declared bounds": shape["decl"], "paths": res.paths}
    vios = []
    for cx in res.cex:
        m = cx["model"]
        bind = templates.bind_concrete(shape["params"], m)
        rows = {name: [{c: int(m.get(f"{name}.{c}{i}", 0)) for c in LEAVES[name]} for i in range(shape["nrows"].get(name, 2))]
                for name in _leaves_in(prog, set()) if name in LEAVES}
        fails, symptom, detail = concrete_check(prog, rows, bind, shape["kind"], shape["decl"])
        if not fails:
            out["status"] = "harness-error"
            out["detail"] = f"counterexample does not reproduce: {fmt(prog)} {bind} {rows} [{cx['label']}] {cx['info']}"
            return out
        mprog = common.minimise(prog, lambda p: concrete_check(p, rows, bind, shape["kind"], shape["decl"])[1] == symptom)
        md = concrete_check(mprog, rows, bind, shape["kind"], shape["decl"])[2]
        vios.append({"site": f"{'>'.join(ops_of(mprog))}/{symptom}" + ("" if shape["kind"] == "seq" else f"/{shape['kind']}")
                     + ("" if shape["decl"] == "exact" else f"/{shape['decl']}"),
                     "summary": f"{fmt(mprog)} bind={bind} rows={rows}: {symptom} {md}",
                     "replay": {"prog": to_jsonable(mprog), "rows": rows, "bind": bind, "kind": shape["kind"],
                                "decl": shape["decl"], "symptom": symptom}})
    if vios:
        out["status"], out["violations"] = VIOLATION, vios
    elif res.inconclusive or not res.complete:
        out["status"], out["detail"] = INCONCLUSIVE, "; ".join(res.notes)[:100]
    elif res.skipped and not res.obligations:
        out["status"], out["detail"] = UNDECIDED, res.skipped
    else:
        out["status"] = HOLDS
    return out


def concrete_check(prog, rows, bind, kind, decl):
    env = Env()
    env.bind = dict(bind)
    leafrows = {}
    _history(env, prog)
    for name in sorted(_leaves_in(prog, set())):
        if name in SPECIAL:
            env.add_special_leaf(name, SPECIAL[name][0], "it1", SPECIAL[name][1])
            leafrows[name] = [{}] if SPECIAL[name][0] == "identity" else []
        else:
            _add_leaf(env, name, LEAVES[name], rows[name], kind if name == "X" else "seq", decl if name == "X" else "exact")
            leafrows[name] = rows[name]
    try:
        rel = build(prog, env)
        got = [{t.qualified_name: v for t, v in r.items()} for r in _execute(rel)]
    except Exception as e:  # noqa: BLE001
        return True, f"raises:{type(e).__name__}", str(e)[:150]
    exp = pyeval(prog, leafrows, bind, env.tags)
    if got != exp:
        return True, "rows-differ", {"tree": str(rel), "expected": exp, "observed": got}
    return False, "", None


def replay(v):
    r = v["replay"]
    prog = from_jsonable(r["prog"])
    fails, symptom, detail = concrete_check(prog, r["rows"], r["bind"], r["kind"], r["decl"])
    return fails and symptom == r["symptom"], f"{fmt(prog)} rows={r['rows']} bind={r['bind']}: {symptom} {detail}"


def describe(tier):
    N = 3 if tier == "quick" else 4
    return {
        "explanation": "The real iteration.Engine.execute, every RowIterable class, convert_* and the factory path that built the tree "
                       "run under symx on leaf payloads whose row values are symbolic integers (unbounded), with symbolic literals and "
                       "slice bounds; the executor forks on every comparison inside sort/dedup/selection/slice.  On every path z3 decides "
                       "that the list of rows produced equals (values, multiplicity, order) the relmodel evaluation of the applied "
                       "operation sequence.  One-step programs over every upstream iterable kind (sequence, mapping, generator, chain, "
                       "materialized, transferred) plus end-to-end programs, so that merges, elisions and the max_rows==0 / "
                       "join-identity / payload short-cuts fire.",
        "bounds": {"rows per leaf": f"every count 0..{N} (concrete list length, symbolic values)", "depth": "1-2 exhaustive over templates, 3 curated"
                   + (", 4 curated" if tier == "thorough" else ""), "slice bounds": f"0..{N + 2}", "values/literals": "unbounded integers"},
        "outside": ["deeper programs, longer leaves", "joins (not supported by the iteration engine)", "non-key columns not functionally "
                    "determined by a key that accompanies them"],
        "assumptions": ["non-key column v is functionally determined by key a (ColumnTag contract)",
                        "RowMapping leaf payloads have unique keys (their documented invariant)"],
    }
