"""C05 - merging and eliding adjacent operations preserves semantics and never rejects."""
from __future__ import annotations

import z3

from .. import common, templates
from ..driver import HOLDS, INCONCLUSIVE, UNDECIDED, VIOLATION
from ..prog import (Env, IllFormed, add_abstract_leaf, build, fmt, ops_of, pyeval, pytree, sem_seq, sem_tree, to_jsonable,
                    from_jsonable)
from ..relmodel import seq_eq
from ..symx import Skip, explore, zint

PID = "C05"
LEVEL = "other"
COLS = ("a", "b", "c")
LEAFCOLS = {"X": COLS}
TRIPLE_LABELS = ("slice s:e", "slice s:", "sort a", "sort b,-a", "sel a>k", "sel false", "proj -b", "calc d",
                 "dedup", "sort -a")


def shapes(tier, seed):
    n = 3 if tier == "quick" else 4
    out = [{"kind": "slice-lemma"}, {"kind": "slice-lemma-twin"}]
    for eng in ("it1", "sq"):
        for depth, level, labels in ((1, "full", None), (2, "full", None), (3, "full", TRIPLE_LABELS)):
            for labs, node, p in templates.unary_sequences(("leaf", "X"), LEAFCOLS, depth, level, labels=labels):
                out.append({"kind": "prog", "eng": eng, "labels": list(labs), "prog": node, "params": p.params,
                            "cons": p.cons, "n": n if depth < 3 else 3})
        # one operation object applied twice in a row (merging / eliding must not look at object identity)
        for labs, node, p in templates.unary_sequences(("leaf", "X"), LEAFCOLS, 1, "full"):
            tw = ("twice", node)
            try:
                from ..prog import cols_of
                cols_of(tw, LEAFCOLS)
            except Exception:  # noqa: BLE001 - e.g. a calculation cannot be applied twice
                continue
            out.append({"kind": "prog", "eng": eng, "labels": list(labs) + ["same object twice"], "prog": tw, "params": p.params, "cons": p.cons, "n": n})
            for l2, n2, p2 in templates.unary_sequences(tw, LEAFCOLS, 1, "full", labels=("slice s:e", "sort a", "sel a>k", "dedup")):
                out.append({"kind": "prog", "eng": eng, "labels": list(labs) + ["same object twice"] + list(l2), "prog": n2, "params": {**p.params, **p2.params},
                            "cons": p.cons + p2.cons, "n": 3})
        if tier == "thorough":
            big = ("slice s:e", "slice :e", "slice s:", "sort a", "sort a,-a", "sel a>k", "sel not", "proj -a")
            for labs, node, p in templates.unary_sequences(("leaf", "X"), LEAFCOLS, 4, "full", labels=big):
                out.append({"kind": "prog", "eng": eng, "labels": list(labs), "prog": node, "params": p.params,
                            "cons": p.cons, "n": 3})
    # the merged operations must also *evaluate* like the sequence: the iteration engine really executes a sample of merged trees
    # (machinery of C01; the merged predicates / sorts / windows are evaluated on several rows by the compiled callables)
    merged = ("sel a>k", "sel and", "sel not", "sel or", "sel a=b", "slice s:e", "sort a", "sort b,-a", "sort a,-a")
    for depth in (2, 3):
        for labs, node, p in templates.unary_sequences(("leaf", "X"), LEAFCOLS, depth, "full", slice_hi=5, labels=merged if depth == 2 else merged[:6]):
            if len({l.split()[0] for l in labs}) == 1 or depth == 2:  # adjacent operations of one type (what simplify merges), all pairs
                out.append({"kind": "exec", "c01": {"prog": node, "params": p.params, "cons": p.cons, "nrows": {"X": 3}, "kind": "seq",
                                                    "decl": "exact", "tag": "merged"}})
    return out


def _setup(ctx, env, shape):
    tab = common.sym_table(ctx, "X", COLS, shape["n"], ordered=True, perm=True)
    add_abstract_leaf(env, "X", COLS, shape["eng"], tab)
    templates.declare(ctx, env, shape["params"], shape["cons"])


def concrete_check(prog, eng, rows, bind):
    """Replay on the unmodified library with ordinary ints.  -> (fails, symptom, detail)"""
    env = Env()
    add_abstract_leaf(env, "X", COLS, eng, None)
    env.bind = dict(bind)
    try:
        rel = build(prog, env)
    except Exception as e:  # noqa: BLE001
        return True, f"raises:{type(e).__name__}", str(e)[:200]
    from ..prog import tree_problem
    tp = tree_problem(rel)
    if tp:
        return True, "tree-ill-formed", tp[:160]
    try:
        got = pytree(rel, {"X": rows})
    except Exception as e:  # noqa: BLE001
        return True, f"tree-not-evaluable:{type(e).__name__}", str(e)[:100]
    exp = pyeval(prog, {"X": rows}, bind, env.tags)
    if got != exp:
        return True, "rows-differ", {"tree": str(rel), "expected": exp, "observed": got}
    return False, "", None


def _site(prog, eng, symptom):
    return f"{'sq' if eng == 'sq' else 'it'}:{'>'.join(ops_of(prog))}/{symptom}"


def run_shape(shape, tier):
    if shape["kind"].startswith("slice-lemma"):
        return _slice_lemma(shape)
    if shape["kind"] == "exec":
        from . import c01
        return c01.run_shape(shape["c01"], tier)
    prog = shape["prog"]
    info = {}

    def h(ctx):
        env = Env(symbolic=True)
        _setup(ctx, env, shape)
        try:
            rel = build(prog, env)
        except Exception as e:  # noqa: BLE001 - any library exception is observed behaviour
            return [("accepted", False, {"exc": f"{type(e).__name__}: {e}"[:200]})]
        info.setdefault("tree", str(rel))
        try:
            got = sem_tree(rel, env)
        except IllFormed as e:
            return [("returned tree is well-formed", False, {"why": str(e), "tree": str(rel)})]
        return [("rows", seq_eq(got, sem_seq(prog, env)), {"tree": str(rel)})]

    res = explore(h, max_paths=3000, wall_s=300)
    out = res.as_dict()
    out["shape"] = {"eng": shape["eng"], "prog": fmt(prog)}
    out["sample"] = {"engine": shape["eng"], "program": fmt(prog), "tree": info.get("tree"), "paths": res.paths,
                     "vc": "seq_eq(sem_tree(apply(...)), sem_seq(program))", "slots": shape["n"]}
    vios = []
    for cx in res.cex:
        bind = templates.bind_concrete(shape["params"], cx["model"])
        rows = common.rows_from_model(cx["model"], "X", COLS, shape["n"], perm=True)
        fails, symptom, detail = concrete_check(prog, shape["eng"], rows, bind)
        if not fails:
            out["status"] = "harness-error"
            out["detail"] = f"counterexample does not reproduce: {fmt(prog)} {bind} {rows} ({cx['label']}: {cx['info']})"
            return out
        mprog = common.minimise(prog, lambda p: concrete_check(p, shape["eng"], rows, bind)[1] == symptom)
        _, _, mdetail = concrete_check(mprog, shape["eng"], rows, bind)
        vios.append({"site": _site(mprog, shape["eng"], symptom), "summary": f"{fmt(mprog)} with {bind} on X={rows}: {symptom} {mdetail}",
                     "replay": {"prog": to_jsonable(mprog), "eng": shape["eng"], "rows": rows, "bind": bind,
                                "symptom": symptom}, "original_program": fmt(prog)})
    if vios:
        out["status"] = VIOLATION
        out["violations"] = vios
    elif res.inconclusive or not res.complete:
        out["status"] = INCONCLUSIVE
        out["detail"] = "; ".join(res.notes)[:100]
    elif res.skipped:
        out["status"] = UNDECIDED
        out["detail"] = res.skipped
    else:
        out["status"] = HOLDS
    return out


def _slice_lemma(shape):
    """Closed form over unbounded indices: i survives both windows <=> it survives the merged one.
    The twin asserts False at the end and must be refuted (reachability witness)."""
    from lsst.daf.relation import Slice

    twin = shape["kind"].endswith("twin")

    def h(ctx):
        a, c = ctx.int("s1", 0), ctx.int("s2", 0)
        b, d = ctx.int("e1"), ctx.int("e2")
        none1, none2 = ctx.bool("e1none"), ctx.bool("e2none")
        i = ctx.int("i", 0)
        ctx.assume(b.t >= a.t)
        ctx.assume(d.t >= c.t)
        s1 = Slice(a, None if none1 else b)
        s2 = Slice(c, None if none2 else d)
        try:
            m = s2.simplify(s1)
        except Exception as e:  # noqa: BLE001
            return [("merge-accepted", False, {"exc": f"{type(e).__name__}: {e}"})]
        if m is None:
            return [("merge-declined", True)]
        in1 = z3.And(i.t >= a.t, True if s1.stop is None else i.t < b.t)
        j = i.t - a.t
        in2 = z3.And(j >= c.t, True if s2.stop is None else j < d.t)
        inm = z3.And(i.t >= zint(m.start), True if m.stop is None else i.t < zint(m.stop))
        # position inside the merged window equals position inside the second window
        same_pos = z3.Implies(inm, i.t - zint(m.start) == j - c.t)
        if twin:
            return [("twin", False)]
        return [("lemma", z3.And(z3.And(in1, in2) == inm, same_pos))]

    res = explore(h)
    out = res.as_dict()
    out["shape"] = shape["kind"]
    out["sample"] = {"lemma": "forall s1<=e1|None, s2<=e2|None, i>=0: in(s1:e1)(i) & in(s2:e2)(i-s1) <=> in(merged)(i)",
                     "paths": res.paths, "unbounded": True}
    if twin:
        out["status"] = HOLDS if res.cex else "harness-error"
        out["detail"] = "reachability twin"
        out["cex"] = []
        out["obligations"] = out["discharged"] = 0  # the twin's assertion is meant to fail: not an obligation of the property
        return out
    vios = []
    for cx in res.cex:
        m = cx["model"]
        s1 = (m["s1"], None if m.get("e1none") else m["e1"])
        s2 = (m["s2"], None if m.get("e2none") else m["e2"])
        try:
            Slice(*s2).simplify(Slice(*s1))
            symptom = "wrong-window"
        except Exception as e:  # noqa: BLE001
            symptom = f"raises:{type(e).__name__}"
        vios.append({"site": f"Slice.simplify/{symptom}", "summary": f"Slice{s2}.simplify(Slice{s1}) i={m.get('i')}: {symptom}",
                     "replay": {"kind": "slice-lemma", "s1": s1, "s2": s2, "i": m.get("i"), "symptom": symptom}})
    out["status"] = VIOLATION if vios else (INCONCLUSIVE if res.inconclusive else HOLDS)
    if vios:
        out["violations"] = vios
    return out


def replay(v):
    r = v["replay"]
    if "decl" in r and "rows" in r and isinstance(r.get("rows"), dict):
        from . import c01
        return c01.replay(v)
    if r.get("kind") == "slice-lemma":
        from lsst.daf.relation import Slice

        s1, s2, i = tuple(r["s1"]), tuple(r["s2"]), r["i"]
        try:
            m = Slice(*s2).simplify(Slice(*s1))
        except Exception as e:  # noqa: BLE001
            return r["symptom"] == f"raises:{type(e).__name__}", f"Slice{s2}.simplify(Slice{s1}) raised {e!r}"
        rows = list(range(max(i or 0, 8) + 4))
        exp = rows[s1[0]:s1[1]][s2[0]:s2[1]]
        got = rows[m.start:m.stop]
        return exp != got, f"expected {exp} observed {got}"
    prog = from_jsonable(r["prog"])
    fails, symptom, detail = concrete_check(prog, r["eng"], r["rows"], r["bind"])
    return fails and symptom == r["symptom"], f"{fmt(prog)} bind={r['bind']} rows={r['rows']}: {symptom} {detail}"


def describe(tier):
    return {
        "explanation": "For every pair (and curated triples / 4-chains) of operation templates applied through the public "
                       "factories to a leaf in the iteration and the SQL engine, symx runs the real apply/_begin_apply/"
                       "_finish_apply/simplify/then code with symbolic slice bounds and literals (unbounded integers); z3 "
                       "decides sequence equality between the relmodel meaning of the returned tree and direct evaluation of "
                       "the operation sequence over an N-slot symbolic target (arbitrary presence, order, duplicates). "
                       "A library exception on a well-typed program is a violation.  Plus the closed-form slice-merge lemma "
                       "over unbounded indices with a reachability twin.",
        "bounds": {"slots": 3 if tier == "quick" else 4, "depth": "1,2 exhaustive over templates; 3 curated" +
                   (" ; 4 curated" if tier == "thorough" else ""), "slice bounds": "unbounded non-negative, stop>=start or None",
                   "literals": "unbounded"},
        "outside": ["programs deeper than the stated depth", "targets with more rows than slots",
                    "non-integer column values / NULLs"],
        "assumptions": ["relmodel is the intended semantics of the operations (DESIGN 2.3)",
                        "sem_tree interprets Select markers through their `target` chain"],
    }
