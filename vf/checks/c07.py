"""C07 - the Processor evaluates multi-engine trees faithfully and only annotates payloads."""
from __future__ import annotations

import z3

from .. import common, meprogs, relmodel, symproc, templates
from ..driver import HOLDS, INCONCLUSIVE, UNDECIDED, VIOLATION
from ..prog import Env, IllTyped, build, cols_of, fmt, from_jsonable, ops_of, pyeval, sem_seq, to_jsonable
from ..symx import Skip, explore, zint
from . import c14

PID = "C07"
LEVEL = "other"
N = 2
ALPHA = ("sel a>k", "proj -b", "dedup", "to it1", "to it2", "to sq", "mat", "sort a")
LEAFCOLS = {**meprogs.LEAFCOLS, "0i": ("a", "b", "c"), "0s": ("a", "b", "c"), "Ii": (), "Is": ()}


def programs(tier):
    acts = meprogs.actions("std")
    maxlen = 4 if tier == "quick" else 5
    out = []
    for st in ("X", "S"):
        frontier = [("leaf", st)]
        for d in range(1, maxlen + 1):
            nxt = []
            for node in frontier:
                for lab in ALPHA:
                    if d == maxlen and lab in ("sel a>k", "proj -b") and tier == "quick":
                        continue
                    n2 = c14._apply(acts, lab, node, None, d)
                    if n2 is not None:
                        nxt.append(n2)
            out += [p for p in nxt if "xfer" in ops_of(p) or "mat" in ops_of(p)]
            frontier = nxt
    # chains with statically empty branches and a transfer above / below
    X, S = ("leaf", "X"), ("leaf", "S")
    out += [("xfer", ("chain", S, ("leaf", "0s")), "it1"), ("xfer", ("chain", ("leaf", "0s"), ("sel", S, ("gt", meprogs.A, ("lit", "$k1")))), "it1"),
            ("xfer", ("chain", X, ("leaf", "0i")), "sq"), ("chain", ("xfer", X, "sq"), ("leaf", "0s")),
            ("dedup", ("chain", ("xfer", S, "it1"), ("leaf", "0i"))), ("mat", ("chain", ("xfer", X, "sq"), ("leaf", "0s"))),
            ("chain", ("xfer", X, "sq"), S), ("chain", ("xfer", S, "it1"), X),
            ("xfer", ("sel", S, ("plit", False)), "it1"), ("xfer", ("leaf", "0s"), "it1"), ("mat", ("xfer", ("leaf", "0i"), "sq"))]
    out += [("xfer", ("leaf", "Is"), "it1"), ("xfer", ("leaf", "Ii"), "sq"), ("mat", ("xfer", ("leaf", "Ii"), "sq"), "mi"),
            ("xfer", ("dedup", ("proj", ("leaf", "Ii"), ())), "it2"), ("xfer", ("mat", ("xfer", ("leaf", "Is"), "it1"), "mi"), "it2")]
    pX0, pS0 = ("proj", X, ()), ("proj", S, ())
    exists = ("dedup", ("proj", ("sel", X, ("gt", meprogs.A, ("lit", "$k1"))), ()))
    out += [("xfer", ("chain", ("leaf", "Ii"), pX0), "sq"), ("xfer", ("chain", pX0, ("leaf", "Ii")), "it2"), ("mat", ("chain", ("leaf", "Ii"), pX0), "mz"),
            ("xfer", ("chain", ("leaf", "Is"), pS0), "it1"), ("xfer", ("chain", ("dedup", pX0), pX0), "sq"), ("xfer", ("chain", exists, pX0), "sq"),
            ("dedup", ("xfer", ("chain", ("leaf", "Ii"), ("leaf", "Ii")), "sq")), ("xfer", ("mat", ("chain", pS0, ("leaf", "Is")), "mz"), "it1")]
    # materializations of relations statically known to be the join identity that are neither leaves nor transfers
    for idn, other in ((("dedup", ("leaf", "Ii")), "sq"), (("dedup", ("leaf", "Is")), "it1"), (("proj", ("slice", X, 0, 1), ()), "sq"),
                       (("chain", ("leaf", "Is"), ("proj", ("leaf", "0s"), ())), "it1"), (("proj", ("slice", ("xfer", X, "sq"), 0, 1), ()), "it2"),
                       (("dedup", ("proj", ("slice", X, 1, 2), ())), "it2")):
        out += [("mat", idn, "mj"), ("xfer", ("mat", idn, "mj"), other), ("dedup", ("xfer", ("mat", idn, "mj"), other)),
                ("mat", ("mat", idn, "mj"), "mj2")]
    out += [("join", ("mat", ("dedup", ("leaf", "Is")), "mj"), S, None), ("join", ("xfer", X, "sq"), ("mat", ("dedup", ("leaf", "Is")), "mj"), None),
            ("xfer", ("join", S, ("mat", ("chain", ("leaf", "Is"), ("proj", ("leaf", "0s"), ())), "mj"), None), "it1")]
    # a sorted chain with a statically empty branch, more operations, then a materialization / transfer: pruning the branch
    # changes the shape the SQL engine sees when the operations are re-applied
    for ch in (("chain", ("leaf", "0s"), S), ("chain", S, ("leaf", "0s"))):
        srt = ("sort", ch, ((meprogs.B, True),))
        for top in (("sel", srt, ("gt", meprogs.A, ("lit", "$k1"))), ("calc", srt, "d", ("add", meprogs.A, meprogs.B)), ("proj", srt, ("a", "b")),
                    ("slice", srt, 0, 2)):
            out += [("xfer", ("mat", top, "ms"), "it1"), ("xfer", top, "it1"), ("mat", top, "ms")]
    # one cached payload read by two branches, one of them sorting it: evaluation of a branch must not disturb the other
    for src in (("sel", X, ("gt", meprogs.A, ("lit", "$k1"))), ("xfer", S, "it1"), ("xfer", ("sort", S, ((meprogs.A, True), (meprogs.B, True), (meprogs.C, True))), "it1")):
        m = ("mat", src, "mshare")
        sorted_m = ("slice", ("sort", m, ((meprogs.B, False), (meprogs.A, False), (meprogs.C, False))), 0, 1)
        out += [("chain", sorted_m, ("slice", m, 0, 1)), ("chain", ("slice", m, 0, 1), sorted_m),
                ("xfer", ("chain", sorted_m, ("slice", m, 0, 1)), "it2"), ("chain", ("sort", m, ((meprogs.B, False),)), m)]
    for src in (("xfer", X, "sq"), ("sel", S, ("gt", meprogs.B, ("lit", "$k1")))):
        msq = ("mat", src, "msq")
        f1 = ("xfer", ("sel", msq, ("gt", meprogs.A, ("lit", "$k1"))), "it1")
        f2 = ("xfer", ("calc", msq, "d", ("add", meprogs.A, meprogs.B)), "it1")
        plain = ("xfer", msq, "it1")
        out += [("chain", plain, f1), ("chain", f1, plain), ("chain", ("proj", f2, ("a", "b", "c")), plain), ("chain", plain, ("proj", f2, ("a", "b", "c"))),
                ("chain", f1, ("xfer", ("sel", msq, ("lt", meprogs.A, meprogs.B)), "it1"))]
    # a tree that an earlier process() returned (its transfers carry payloads) gets one more operation with the source engine
    # preferred - backtracking re-applies the transfer to a new upstream tree - and is processed again
    K2 = ("lt", meprogs.A, ("lit", "$k2"))
    for leaf, there, back in ((S, "it1", "sq"), (X, "sq", "it1"), (X, "it2", "it1")):
        for mid in (("xfer", ("sel", leaf, ("gt", meprogs.A, ("lit", "$k1"))), there), ("dedup", ("xfer", leaf, there))):
            done = ("proc", mid)
            for o in ((back, True, False, False), (back, True, True, False)):
                if mid[0] != "dedup":  # (a projection moved upstream of a deduplication is the known finding D3 of C03/C04)
                    out.append(("proj", done, ("a", "b"), o))
                out += [("sel", done, K2, o), ("sort", done, ((meprogs.B, False), (meprogs.A, True), (meprogs.C, True)), o),
                        ("xfer", ("sel", done, K2, o), back) if o[2] is False else ("mat", ("sel", done, K2, o), "mp")]
    # SQL-side results that are statically empty through an *operation* (not a leaf, transfer or materialization) downstream of a
    # transfer or a materialization that has no payload yet: the processed tree must still be evaluable by the SQL engine
    for src in (("xfer", X, "sq"), ("mat", ("xfer", X, "sq"), "me"), ("mat", ("sel", S, ("gt", meprogs.A, ("lit", "$k1"))), "me")):
        for emp in (("slice", src, 0, 0), ("sel", src, ("plit", False)), ("join", src, ("leaf", "0s"), None),
                    ("dedup", ("slice", src, 0, 0)), ("proj", ("sel", src, ("plit", False)), ("a",))):
            out += [emp, ("xfer", emp, "it1"), ("chain", emp, S) if emp[0] != "proj" else ("dedup", emp)]
    selS = ("sel", S, ("gt", meprogs.A, ("lit", "$k1")))
    selX = ("sel", X, ("gt", meprogs.A, ("lit", "$k1")))
    for empty, live, other in ((("leaf", "0s"), selS, "it1"), (("leaf", "0i"), selX, "sq"), (("leaf", "0i"), selX, "it2")):
        for ch in (("chain", empty, live), ("chain", live, empty)):
            out += [("xfer", ("mat", ch, "mc"), other), ("mat", ch, "mc"), ("xfer", ("dedup", ("mat", ch, "mc")), other),
                    ("mat", ("mat", ch, "mc"), "mc2"), ("xfer", ("mat", ("proj", ch, ("a", "b")), "mc"), other)]
    return out


def _twin_tree(prog, env, ctx, vals=None):
    """The same program over *other* leaf objects with the same names, engines and columns but other rows."""
    from ..prog import Env as _Env

    env2 = _Env(symbolic=ctx is not None)
    env2.engines = env.engines
    env2.tags = env.tags
    env2.metadata = env.metadata
    env2.bind = env.bind
    names = repr(prog)
    if "'X'" in names:
        rows = [{c: (ctx.int(f"X2.{c}{i}") if ctx is not None else int((vals or {}).get(f"X2.{c}{i}", 7 + i))) for c in "abc"} for i in range(N)]
        env2.add_iter_leaf("X", "abc", rows, engine="it1")
    if "'S'" in names:
        # same table object (same FROM clause), other leaf relation object
        from lsst.daf.relation import sql as _sql
        s_old = env.leaves["S"].skip_to
        env2.leaves["S"] = env.engines["sq"].make_leaf(s_old.columns, payload=s_old.payload, name="S")
        env2.tables = env.tables
    for k in ("0i", "0s", "Ii", "Is"):
        if k in env.leaves:
            env2.leaves[k] = env.leaves[k]
    def named(n, depth=0):
        if not isinstance(n, tuple) or not n or n[0] == "leaf":
            return n
        if n[0] == "mat" and len(n) == 2:
            return ("mat", named(n[1], depth + 1), f"w{depth}")
        return tuple(named(x, depth + 1) if isinstance(x, tuple) and x and isinstance(x[0], str) else x for x in n)
    return build(prog, env2)


def _explicit_names(n, depth=0):
    if not isinstance(n, tuple) or not n or n[0] == "leaf":
        return n
    if n[0] == "mat" and len(n) == 2:
        return ("mat", _explicit_names(n[1], depth + 1), f"t{depth}")
    return tuple(_explicit_names(x, depth + 1) if isinstance(x, tuple) and x and isinstance(x[0], str) and x[0] in (
        "leaf", "calc", "proj", "sel", "dedup", "sort", "slice", "chain", "join", "mat", "xfer") else x for x in n)


def shapes(tier, seed):
    progs = programs(tier)
    size = 8
    out = [{"progs": progs[i:i + size]} for i in range(0, len(progs), size)]
    twins = [_explicit_names(p) for p in progs if "'X'" in repr(p) and len(ops_of(p)) <= 3][::3]
    out += [{"progs": twins[i:i + size], "twin": True} for i in range(0, len(twins), size)]
    return out


def cost(shape):
    return sum(len(ops_of(p)) + 3 * ops_of(p).count("sort") + 2 * ops_of(p).count("dedup") for p in shape["progs"])


def make_env(ctx, prog, valfn=None):
    """X: iteration leaf with N real rows (symbolic values); S: SQL leaf bound to a symbolic table; doomed leaves."""
    env = Env(symbolic=ctx is not None)
    names = repr(prog)
    if "'X'" in names:
        rows = [{c: (ctx.int(f"X.{c}{i}") if ctx is not None else valfn("X", c, i)) for c in "abc"} for i in range(N)]
        env.add_iter_leaf("X", "abc", rows, engine="it1")
    if "'S'" in names:
        if ctx is not None:
            tab, _ = relmodel.leaf_symbolic("S", "abc", N, ordered=False)
            common.register_table(ctx, tab)
        else:
            tab = valfn("S", None, None)
        env.add_sql_leaf("S", "abc", N, table=tab)
    if "'0i'" in names:
        env.add_special_leaf("0i", "doomed", "it1", ("a", "b", "c"))
    if "'0s'" in names:
        env.add_special_leaf("0s", "doomed", "sq", ("a", "b", "c"))
    if "'Ii'" in names:
        env.add_special_leaf("Ii", "identity", "it1")
    if "'Is'" in names:
        env.add_special_leaf("Is", "identity", "sq")
    return env


def snapshot(rel, acc=None, seen=None):
    """(node, structural key, payload-present) for every node of a tree."""
    from lsst.daf.relation import BinaryOperationRelation, MarkerRelation, UnaryOperationRelation

    acc = [] if acc is None else acc
    seen = set() if seen is None else seen
    if id(rel) in seen:
        return acc
    seen.add(id(rel))
    acc.append((rel, type(rel).__name__, str(rel), frozenset(rel.columns), rel.payload is not None, rel.payload))
    if isinstance(rel, UnaryOperationRelation):
        snapshot(rel.target, acc, seen)
    elif isinstance(rel, BinaryOperationRelation):
        snapshot(rel.lhs, acc, seen)
        snapshot(rel.rhs, acc, seen)
    elif isinstance(rel, MarkerRelation):
        snapshot(rel.target, acc, seen)
        if hasattr(rel, "skip_to"):
            snapshot(rel.skip_to, acc, seen)
    return acc


def input_tree_problem(before, after_nodes):
    from lsst.daf.relation import Materialization, Transfer

    for (node, tname, s, cols, had, payload), (node2, tname2, s2, cols2, has, payload2) in zip(before, after_nodes):
        if node is not node2 or s != s2 or cols != cols2:
            return f"input tree node changed: {s} -> {s2}"
        if had and payload2 is not payload:
            return f"payload of {s} was replaced"
        if not had and has and not isinstance(node, Materialization):
            return f"{tname} node of the input tree gained a payload: {s}"
    return None


def unevaluable(source):
    """A node the source engine cannot evaluate on its own: in a SQL engine any transfer or materialization without
    payload; in an iteration engine a payload-less transfer from a non-iteration engine.  Nodes below a payload are
    never looked at by the engines."""
    from lsst.daf.relation import (BinaryOperationRelation, MarkerRelation, Materialization, Transfer, UnaryOperationRelation,
                                   iteration, sql)

    todo = [source]
    while todo:
        r = todo.pop()
        if r.payload is not None:
            continue
        if isinstance(r, Transfer):
            if isinstance(r.engine, sql.Engine) or not isinstance(r.target.engine, iteration.Engine):
                return f"hook source contains a Transfer without payload: {r}"
        if isinstance(r, Materialization) and isinstance(r.engine, sql.Engine):
            return f"hook source contains a Materialization without payload: {r}"
        if isinstance(r, UnaryOperationRelation):
            todo.append(r.target)
        elif isinstance(r, BinaryOperationRelation):
            todo += [r.lhs, r.rhs]
        elif isinstance(r, MarkerRelation):
            todo.append(r.target)
    return None


def run_one(prog, env, db, times=2, warm=None):
    """process() `times` times, evaluate the result; -> (problems, results, log).  `warm`: an equal but distinct tree
    (other leaf objects of the same names) processed first by the same Processor."""
    log = []
    proc = symproc.make_processor(db, log)
    if warm is not None:
        symproc.evaluate(proc.process(warm), db)
        log.clear()
    tree = build(prog, env)
    problems = []
    results = []
    hook_counts = []
    for i in range(times):
        before = snapshot(tree)
        n0 = len(log)
        try:
            out = proc.process(tree)
        except Skip:
            raise
        except Exception as e:  # noqa: BLE001 - the tree was accepted by the factories: processing it must not fail
            problems.append((f"process-raises:{type(e).__name__}", f"process() call {i + 1}: {e}"[:200]))
            results.append(None)
            break
        after = snapshot(tree)
        p = input_tree_problem(before, after)
        if p:
            problems.append(("input-tree-modified", p))
        if out.engine != tree.engine or frozenset(out.columns) != frozenset(tree.columns):
            problems.append(("result-engine-or-columns-differ", f"{out.engine}/{set(out.columns)} vs {tree.engine}/{set(tree.columns)}"))
        for entry in log[n0:]:
            src = entry[1]
            u = unevaluable(src)
            if u:
                problems.append(("hook-source-not-evaluable", u))
            if src.max_rows == 0 or src.is_join_identity:
                problems.append(("hook-called-for-trivial-relation", str(src)))
        hook_counts.append(len(log) - n0)
        try:
            results.append(symproc.evaluate(out, db))
        except Exception as e:  # noqa: BLE001
            problems.append(("processed-tree-not-executable", f"{type(e).__name__}: {e}"[:140]))
            results.append(None)
    return tree, problems, results, hook_counts


def run_shape(shape, tier):
    from lsst.daf.relation import ColumnError, EngineError, RelationalAlgebraError

    tot = {"paths": 0, "queries": 0, "solver_s": 0.0, "obligations": 0, "discharged": 0, "inconclusive": 0}
    functions = set()
    vios = []
    sample = None
    for prog in shape["progs"]:
        params, cons = meprogs.params_for(prog)
        info = {}
        cache = {}

        def h(ctx, prog=prog, params=params, cons=cons, info=info, cache=cache):
            env = make_env(ctx, prog)
            templates.declare(ctx, env, params, cons)
            db = symproc.SymDB(env)
            try:
                warm = _twin_tree(prog, env, ctx) if shape.get("twin") else None
                tree, problems, results, hooks = run_one(prog, env, db, warm=warm)
            except (ColumnError, RelationalAlgebraError) as e:
                raise Skip(f"rejected at construction: {type(e).__name__}")
            except Exception as e:  # noqa: BLE001
                return [("process() returns", False, {"exc": f"{type(e).__name__}: {e}"[:160]})]
            info.setdefault("tree", str(tree))
            info.setdefault("hooks", hooks)
            obs = [(sym, False, {"detail": det}) for sym, det in problems[:3]]
            if "ref" not in cache:
                cache["ref"] = sem_seq(prog, env)
            ref = cache["ref"]
            ordered = "S" not in repr(prog) and "sq" not in repr(prog) and ref.ordered
            for i, got in enumerate(results):
                if got is None:
                    continue
                if isinstance(got, list):
                    gz = [{t.qualified_name: zint(v) for t, v in r.items()} for r in got]
                    vc = relmodel.seq_equals_list(ref, gz) if ordered else relmodel.mset_equals_list(relmodel.unordered(ref), gz)
                else:
                    vc = relmodel.mset_eq(relmodel.unordered(got), relmodel.unordered(ref))
                obs.append((f"rows after process() #{i + 1}", vc, {"tree": str(tree)}))
            return obs

        res = explore(h, max_paths=3000, wall_s=120, profile=(sample is None))
        for k in tot:
            tot[k] += getattr(res, k)
        functions |= res.functions
        if sample is None and res.obligations:
            sample = {"program": fmt(prog), "tree": info.get("tree"), "hook calls per process()": info.get("hooks"), "paths": res.paths}
        for cx in res.cex[:1]:
            m = cx["model"]
            bind = templates.bind_concrete(params, m)
            if shape.get("twin"):
                m = dict(m)
                m["__twin__"] = True
            fails, symptom, detail = concrete_check(prog, m, bind)
            if not fails:
                return {"status": "harness-error", "detail": f"counterexample does not reproduce: {fmt(prog)} {bind} {cx['label']} {cx['info']}", **tot}
            mprog = common.minimise(prog, lambda p: concrete_check(p, m, bind)[1] == symptom)
            vios.append({"site": f"{c14._sig(mprog)}/{symptom}", "summary": f"{fmt(mprog)} bind={bind}: {symptom} {concrete_check(mprog, m, bind)[2]}",
                         "replay": {"prog": to_jsonable(mprog), "model": {k: v for k, v in m.items() if k.startswith(("X.", "S.", "X2.", "__twin"))}, "bind": bind,
                                    "symptom": symptom}, "original_program": fmt(prog)})
    out = dict(tot)
    out["functions"] = sorted(functions)
    out["shape"] = f"{fmt(shape['progs'][0])} (+{len(shape['progs']) - 1} more)"
    out["sample"] = sample or {"note": "all programs of this batch were rejected"}
    if vios:
        out["status"], out["violations"] = VIOLATION, vios
    elif tot["inconclusive"]:
        out["status"], out["detail"] = INCONCLUSIVE, "budget"
    else:
        out["status"] = HOLDS
    return out


def concrete_check(prog, model, bind):
    """Same pipeline with ordinary ints: the SQL side is the SMT model evaluated on ground tables (validated against
    SQLite in C02); the iteration side and the Processor are the real code."""
    from lsst.daf.relation import ColumnError, RelationalAlgebraError
    from ..sqlprogs import concrete_tab, model_rows

    srows = common.rows_from_model(model, "S", "abc", N)

    def valfn(name, c, i):
        if name == "S":
            return concrete_tab(srows, "abc")
        return int(model.get(f"X.{c}{i}", 0))

    env = make_env(None, prog, valfn)
    env.bind = dict(bind)
    db = symproc.SymDB(env)
    try:
        warm = _twin_tree(prog, env, None, model) if ("'t0'" in repr(prog) or "'t1'" in repr(prog) or "'t2'" in repr(prog) or model.get("__twin__")) else None
        tree, problems, results, hooks = run_one(prog, env, db, warm=warm)
    except (ColumnError, RelationalAlgebraError):
        return False, "rejected", None
    except Exception as e:  # noqa: BLE001
        return True, f"process-raises:{type(e).__name__}", str(e)[:140]
    if problems:
        return True, problems[0][0], problems[0][1]
    leafrows = {"X": [{c: int(model.get(f"X.{c}{i}", 0)) for c in "abc"} for i in range(N)], "S": srows, "0i": [], "0s": [],
                "Ii": [{}], "Is": [{}]}
    exp = pyeval(prog, leafrows, bind, env.tags)
    ordered = "S" not in repr(prog) and "sq" not in repr(prog)
    for i, got in enumerate(results):
        rows = [{t.qualified_name: v for t, v in r.items()} for r in got] if isinstance(got, list) else model_rows(got)
        same = (rows == exp) if ordered else (common.canon(rows) == common.canon(exp))
        if not same:
            return True, "rows-differ", {"tree": str(tree), "process call": i + 1, "expected": exp, "observed": rows}
    return False, "", None


def replay(v):
    r = v["replay"]
    prog = from_jsonable(r["prog"])
    fails, symptom, detail = concrete_check(prog, r["model"], r["bind"])
    return fails and symptom == r["symptom"], f"{fmt(prog)}: {symptom} {detail}"


def describe(tier):
    return {
        "explanation": "A Processor subclass whose hooks evaluate for real - iteration sources by the real engine.execute, SQL sources by the "
                       "real to_executable() interpreted by sqlmodel on a symbolic database (CREATE TABLE AS = bind a new table), SQL->"
                       "iteration results turned into Python rows by forking on presence flags - runs under symx on every tree made of up to "
                       "4 (5 thorough) steps over {selection, projection, deduplication, sort, transfer to each of three engines, "
                       "materialize} from an iteration and a SQL leaf, plus chains with statically empty branches.  process() is called "
                       "twice; z3 decides that the rows obtained by executing the processed tree equal direct evaluation; the input tree "
                       "snapshot (only Materialization payloads may appear), result engine/columns, evaluability of every hook source and "
                       "absence of hook calls for trivial relations are path assertions.",
        "bounds": {"rows": f"{N} per leaf (iteration leaf: concrete length, SQL leaf: symbolic presence)", "steps": "<=4 quick / <=5 thorough",
                   "process() calls": 2},
        "outside": ["real database behaviour (SQL side is the SMT model, validated against SQLite in C02)", "joins across engines"],
        "assumptions": ["sqlmodel semantics"],
        "rule": "one evaluation = one batch of 8 programs, each explored on all paths",
    }
