"""C20 - ill-formed requests are rejected at the factory call with the documented error."""
from __future__ import annotations

import z3

from .. import common, meprogs, templates
from ..driver import HOLDS, INCONCLUSIVE, UNDECIDED, VIOLATION
from ..prog import Env, IllTyped, add_abstract_leaf, build, cols_of, expression_history, fmt, from_jsonable, to_jsonable
from ..symx import Skip, explore, zint
from . import c14

PID = "C20"
LEVEL = "other"
A, B, Zc = ("ref", "a"), ("ref", "b"), ("ref", "z")
PLAIN = ("calc d=a+b", "proj -b", "sel a>k", "dedup", "sort -b,a", "slice s:e", "mat")


def ill_edits(cols, engine_kind):
    """(label, expected exception classes, make(child, opts) -> node).  `cols` are the columns of the target."""
    E = []
    E.append(("calc needs missing column", ("ColumnError",), lambda ch, o: ("calc", ch, "e", ("add", A, Zc), o)))
    if "a" in cols:
        E.append(("calc existing tag", ("ColumnError",), lambda ch, o: ("calc", ch, "a", ("neg", A), o)))
        E.append(("sort term missing column", ("ColumnError",), lambda ch, o: ("sort", ch, ((A, True), (Zc, False)), o)))
        E.append(("selection missing column", ("ColumnError",), lambda ch, o: ("sel", ch, ("and", ("gt", A, ("lit", "$k9")), ("lt", Zc, A)), o)))
        # expression unsupported by the engine the operation would run in
        E.append(("calc unsupported by engine", ("EngineError",), lambda ch, o: ("calc", ch, "e", ("rneg", A, "sq" if engine_kind == "it" else "it"), None)))
        other = "sq" if engine_kind == "it" else "it"
        E.append(("calc unsupported (nested in a supported restricted function)", ("EngineError",),
                  lambda ch, o: ("calc", ch, "e", ("rneg", ("rneg", A, other), "both"), None)))
        E.append(("calc unsupported (nested in an unrestricted function)", ("EngineError",),
                  lambda ch, o: ("calc", ch, "e", ("add", ("rneg", A, other), ("lit", "$k9")), None)))
        E.append(("calc engine-specific function of the other engine (nested)", ("EngineError",),
                  lambda ch, o: ("calc", ch, "e", ("neg", ("efn", A, other)), None)))
        E.append(("sort term unsupported, equal to the existing sort's term but for the engine restriction", ("EngineError",),
                  lambda ch, o: ("sort", ("sort", ch, ((("neg", A), True),)), ((("rneg", A, other), True),), None)))
        E.append(("sort terms unsupported, equal to a prefix of the existing sort's terms but for the engine restriction", ("EngineError",),
                  lambda ch, o: ("sort", ("sort", ch, ((("neg", A), False), (A, True))), ((("rneg", A, other), False),), None)))
        E.append(("sort term unsupported (nested)", ("EngineError",),
                  lambda ch, o: ("sort", ch, ((("rneg", ("add", A, ("rneg", A, other)), "both"), True),), None)))
        E.append(("selection unsupported (nested under NOT / comparison)", ("EngineError",),
                  lambda ch, o: ("sel", ch, ("not", ("gt", ("rneg", ("rneg", A, other), "both"), ("lit", "$k9"))), None)))
        E.append(("selection unsupported by engine", ("EngineError",), lambda ch, o: ("sel", ch, ("rgt", A, ("lit", "$k9"), "sq" if engine_kind == "it" else "it"), None)))
    if "a" in cols and "d" not in cols:
        # the same predicate object first in a well-typed join (the other operand supplies d), then on a relation without d
        P = ("lt", A, ("ref", "d"))
        other_leaf = "Z" if engine_kind == "sq" else None
        if other_leaf:
            E.append(("selection reusing the predicate object of an earlier well-typed join", ("ColumnError", "RowOrderError"),
                      lambda ch, o: ("sel", ("proj", ("join", ch, ("leaf", other_leaf), P), tuple(sorted(cols))), P, o)))
    if "a" in cols:
        E.append(("selection with a missing column inside a trivially true disjunct", ("ColumnError",),
                  lambda ch, o: ("sel", ch, ("and", ("gt", A, ("lit", "$k9")), ("or", ("plit", True), ("lt", Zc, A))), o)))
        E.append(("selection with a missing column under NOT of a trivially false conjunction", ("ColumnError",),
                  lambda ch, o: ("sel", ch, ("and", ("gt", A, ("lit", "$k9")), ("not", ("and", ("plit", False), ("lt", Zc, A)))), o)))
        E.append(("selection unsupported by engine inside a trivially true disjunct", ("EngineError",),
                  lambda ch, o: ("sel", ch, ("and", ("gt", A, ("lit", "$k9")), ("or", ("plit", True), ("rgt", A, ("lit", "$k9"), "sq" if engine_kind == "it" else "it"))), None)))
    E.append(("selection only missing column", ("ColumnError",), lambda ch, o: ("sel", ch, ("gt", Zc, ("lit", "$k9")), o)))
    E.append(("projection of missing column", ("ColumnError",), lambda ch, o: ("proj", ch, ("a", "z") if "a" in cols else ("z",), o)))
    E.append(("projection onto all columns plus a missing one", ("ColumnError",), lambda ch, o: ("proj", ch, tuple(sorted(cols)) + ("z",), o)))
    E.append(("sort only missing column", ("ColumnError",), lambda ch, o: ("sort", ch, ((Zc, True),), o)))
    return E


def programs(tier):
    acts = meprogs.actions("std")
    out = []
    optsets = meprogs.option_sets(full=(tier == "thorough"))
    for st_name in ("X", "S"):
        st = ("leaf", st_name)
        pres = [st] + [n for n in (c14._apply(acts, l, st, None, 1) for l in PLAIN) if n]
        bases = []
        for pre in pres:
            bases.append(pre)
            for dest in meprogs.ENGINES:
                if dest == meprogs.LEAVES[st_name][0]:
                    continue
                x = ("xfer", pre, dest)
                bases.append(x)
                for l in ("sel a>k", "proj -b", "calc d=a+b", "sort a"):
                    n = c14._apply(acts, l, x, None, 2)
                    if n:
                        bases.append(n)
        for base in bases:
            try:
                cols = set(cols_of(base, meprogs.LEAFCOLS))
            except IllTyped:
                continue
            eng = _static_engine(base)
            for label, classes, mk in ill_edits(cols, "sq" if eng == "sq" else "it"):
                for o in optsets:
                    node = mk(base, o)
                    if node[-1] is None and o is not None:
                        continue
                    out.append({"kind": "unary", "base": base, "node": node, "label": label, "classes": classes})
            # binary ill-typings
            for other, (oeng, ocols) in meprogs.LEAVES.items():
                same = oeng == eng
                if same and frozenset(ocols) != frozenset(cols):
                    out.append({"kind": "binary", "base": base, "node": ("chain", base, ("leaf", other)), "label": "chain different columns",
                                "classes": ("ColumnError",)})
                if not same:
                    cl = ("EngineError",) if frozenset(ocols) == frozenset(cols) else ("EngineError", "ColumnError")
                    out.append({"kind": "binary", "base": base, "node": ("chain", base, ("leaf", other)), "label": "chain different engines",
                                "classes": cl})
                    for bt in ((True, False), (False, False)):
                        out.append({"kind": "binary", "base": base, "node": ("join", base, ("leaf", other), None, bt),
                                    "label": "join different engines, no transfer", "classes": ("EngineError",), "maybe_ok": bt[0]})
                if same:
                    out.append({"kind": "binary", "base": base, "node": ("join", base, ("leaf", other), ("gt", Zc, A)),
                                "label": "join predicate missing column", "classes": ("ColumnError",)})
            out.append({"kind": "slice", "base": base, "label": "slice negative / reversed / stepped"})
    return out


def _classes(item):
    """Documented classes acceptable for this request (a doubly ill-formed request may raise either)."""
    from ..prog import ops_of

    cl = tuple(item["classes"])
    if item["kind"] == "binary" and "sort" in ops_of(item["base"]):
        cl += ("RowOrderError",)  # a sorted, unsliced SQL operand is itself refused (C11)
    return cl


def _static_engine(node):
    """Engine of a program whose operations carry no preferred-engine options."""
    if node[0] == "leaf":
        return meprogs.LEAVES[node[1]][0]
    if node[0] == "xfer":
        return node[2]
    return _static_engine(node[1])


def shapes(tier, seed):
    progs = programs(tier)
    size = 40
    return [{"items": progs[i:i + size]} for i in range(0, len(progs), size)]


def fingerprints(rels):
    out = []
    for r in rels:
        try:
            h = hash(r)
        except TypeError:
            h = "unhashable"
        out.append((repr(r), str(r), frozenset(r.columns), r.min_rows, r.max_rows, h, r.payload is None))
    return out


def _chain_of(rel):
    """Every relation reachable from a tree (the relations that existed before the rejected call)."""
    from lsst.daf.relation import BinaryOperationRelation, MarkerRelation, UnaryOperationRelation

    out, todo, seen = [], [rel], set()
    while todo:
        r = todo.pop()
        if id(r) in seen:
            continue
        seen.add(id(r))
        out.append(r)
        if isinstance(r, UnaryOperationRelation):
            todo.append(r.target)
        elif isinstance(r, BinaryOperationRelation):
            todo += [r.lhs, r.rhs]
        elif isinstance(r, MarkerRelation):
            todo.append(r.target)
            if hasattr(r, "skip_to"):
                todo.append(r.skip_to)
    return out


def attempt(item, env, slice_args=None):
    """Build the base, then issue the ill-formed call.  -> (outcome, problem)"""
    expression_history(env, item["base"], item.get("node"))
    try:
        base = build(item["base"], env)
    except Exception as e:  # noqa: BLE001 - prefix not constructible: nothing to test
        return "no-base", None
    existing = _chain_of(base) + list(env.leaves.values())
    before = fingerprints(existing)
    memo = {id(item["base"]): base}
    try:
        if item["kind"] == "slice":
            start, stop, step = slice_args
            res = base[start:stop:step]
        else:
            res = build(item["node"], env, memo)
        outcome = "returned"
        if item["kind"] == "binary" and item["node"][0] == "join":
            other = env.leaves[item["node"][2][1]]
            if not ({t.qualified_name for t in other.columns} <= {t.qualified_name for t in res.columns}):
                outcome = "returned-without-joining"
    except Exception as e:  # noqa: BLE001
        outcome = type(e).__name__
        if outcome == "RelationalAlgebraError" and "row order" in str(e):
            outcome = "RowOrderError"
    problem = None
    if fingerprints(existing) != before:
        problem = "a rejected (or accepted) call changed an existing relation"
    return outcome, problem


def run_shape(shape, tier):
    tot = {"paths": 0, "queries": 0, "solver_s": 0.0, "obligations": 0, "discharged": 0, "inconclusive": 0}
    functions = set()
    vios = []
    sample = None
    for item in shape["items"]:
        params, cons = meprogs.params_for((item["base"], item.get("node")))

        def h(ctx, item=item, params=params, cons=cons):
            env = c14.make_env(ctx)
            templates.declare(ctx, env, params, cons)
            if item["kind"] == "slice":
                start, stop, step = ctx.int("sl.start"), ctx.int("sl.stop"), ctx.int("sl.step")
                stop_none, step_none = ctx.bool("sl.stop_none"), ctx.bool("sl.step_none")
                args = (start, None if stop_none else stop, None if step_none else step)
                outcome, problem = attempt(item, env, args)
                if outcome == "no-base":
                    raise Skip("prefix rejected")
                bad_value = z3.Or(start.t < 0, z3.And(z3.Not(stop_none.t), stop.t < start.t)) if args[1] is not None else (start.t < 0)
                bad_step = z3.BoolVal(False) if args[2] is None else (step.t != 1)
                obs = [("existing relations unchanged", problem is None, {"problem": problem})]
                if outcome == "returned":
                    obs.append(("returned only for well-formed slices", z3.Not(z3.Or(bad_value, bad_step)), {"outcome": outcome}))
                elif outcome == "ValueError":
                    obs.append(("ValueError only for negative/reversed slices", bad_value, {"outcome": outcome}))
                elif outcome == "TypeError":
                    obs.append(("TypeError only for stepped slices", bad_step, {"outcome": outcome}))
                else:
                    obs.append(("documented exception class", z3.Not(z3.Or(bad_value, bad_step)) if outcome in ("ColumnError", "EngineError", "RelationalAlgebraError") else False,
                                {"outcome": outcome}))
                return obs
            outcome, problem = attempt(item, env)
            if outcome == "no-base":
                raise Skip("prefix rejected")
            ok = bool(outcome in _classes(item) or (item.get("maybe_ok") and outcome == "returned"))
            return [("existing relations unchanged", problem is None, {"problem": problem}),
                    ("rejected with the documented class", ok, {"outcome": outcome, "expected": item["classes"]})]

        res = explore(h, max_paths=400, wall_s=60, profile=(sample is None))
        for k in tot:
            tot[k] += getattr(res, k)
        functions |= res.functions
        if sample is None and res.obligations:
            sample = {"prefix": fmt(item["base"]), "ill-typing": item["label"], "call": fmt(item["node"]) if item.get("node") else "base[start:stop:step] symbolic",
                      "paths": res.paths}
        for cx in res.cex[:1]:
            m = cx["model"]
            bind = templates.bind_concrete(params, m)
            sl = None
            if item["kind"] == "slice":
                sl = (m.get("sl.start", 0), None if m.get("sl.stop_none") else m.get("sl.stop", 0), None if m.get("sl.step_none") else m.get("sl.step", 1))
            fails, symptom = concrete_check(item, bind, sl)
            if not fails:
                return {"status": "harness-error", "detail": f"counterexample does not reproduce: {item['label']} on {fmt(item['base'])} {bind} {sl} {cx['info']}", **tot}
            vios.append({"site": f"{item['label']}/{symptom}/{c14._sig(item['base'])}" + (f"/{_optsig(item['node'])}" if item.get("node") else ""),
                         "summary": f"{item['label']} on {fmt(item['base'])}" + (f" via {fmt(item['node'])}" if item.get('node') else f" slice {sl}") + f": {symptom}",
                         "replay": {"item": to_jsonable(item), "bind": bind, "slice": sl, "symptom": symptom}})
    out = dict(tot)
    out["functions"] = sorted(functions)
    out["shape"] = f"{shape['items'][0]['label']} on {fmt(shape['items'][0]['base'])} (+{len(shape['items']) - 1} more)"
    out["sample"] = sample or {"note": "all prefixes of this batch were rejected"}
    if vios:
        out["status"], out["violations"] = VIOLATION, vios
    elif tot["inconclusive"]:
        out["status"], out["detail"] = INCONCLUSIVE, "budget"
    else:
        out["status"] = HOLDS
    return out


def _optsig(node):
    o = node[-1] if isinstance(node[-1], tuple) and len(node[-1]) == 4 and isinstance(node[-1][1], bool) else None
    return "noopt" if not o else f"@{o[0]}{'b' if o[1] else ''}{'t' if o[2] else ''}{'r' if o[3] else ''}"


def concrete_check(item, bind, sl):
    env = c14.make_env(None, symbolic=False)
    env.bind = dict(bind)
    outcome, problem = attempt(item, env, sl)
    if outcome == "no-base":
        return False, ""
    if problem:
        return True, "existing-relation-changed"
    if item["kind"] == "slice":
        start, stop, step = sl
        bad_value = start < 0 or (stop is not None and stop < start)
        bad_step = step not in (1, None)
        if outcome == "returned":
            return (bad_value or bad_step), "ill-formed-slice-accepted"
        if outcome == "ValueError":
            return (not bad_value), "ValueError-for-valid-slice"
        if outcome == "TypeError":
            return (not bad_step), "TypeError-for-unit-step"
        return True, f"slice-raises-{outcome}"
    ok = outcome in _classes(item) or (item.get("maybe_ok") and outcome == "returned")
    return (not ok), ("accepted" if outcome == "returned" else f"raises-{outcome}")


def replay(v):
    r = v["replay"]
    item = r["item"]
    item["base"] = from_jsonable(item["base"])
    if item.get("node") is not None:
        item["node"] = from_jsonable(item["node"])
        # the rebuilt node must share the base object identity used by attempt(): rebuild it around the base
        def rebase(n):
            if n == item["base"]:
                return item["base"]
            if isinstance(n, tuple):
                return tuple(rebase(x) for x in n)
            return n
        item["node"] = rebase(item["node"])
    item["classes"] = tuple(item.get("classes", ()))
    sl = tuple(r["slice"]) if r.get("slice") else None
    fails, symptom = concrete_check(item, r["bind"], sl)
    return fails and symptom == r["symptom"], f"{item['label']} on {fmt(item['base'])}: {symptom or 'rejected as documented'}"


def describe(tier):
    return {
        "explanation": "Well-typed prefixes over three engines (optionally through a transfer and a further operation) receive one ill-typing "
                       "edit at the last call, issued through every preferred_engine/backtrack/transfer/require_preferred_engine "
                       "combination: missing column in calculation / sort term / selection / projection / join predicate, existing tag, "
                       "chain with different columns, operands in different engines without transfer, expression unsupported by the engine; "
                       "slices with symbolic unbounded start/stop/step (or None).  symx runs the real factory call; on every path the "
                       "documented class must be raised by the call itself, nothing may be returned (z3 decides the slice conditions "
                       "start<0 or stop<start => ValueError, step not in {1,None} => TypeError), and fingerprints of all existing "
                       "relations must be unchanged.",
        "bounds": {"prefixes": "start leaf, <=1 operation, optional transfer + <=1 operation", "slice start/stop/step": "unbounded integers or None"},
        "outside": ["deeper prefixes", "requests ill-formed in two ways may raise either documented class"],
        "assumptions": [],
        "rule": "one evaluation = one batch of up to 40 (prefix, ill-typing, options) requests, each explored on all paths",
    }
