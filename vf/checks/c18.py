"""C18 - the iteration engine is lazy and single-pass where documented."""
from __future__ import annotations

import z3

from .. import common, templates
from ..driver import HOLDS, INCONCLUSIVE, UNDECIDED, VIOLATION
from ..prog import Env, IllTyped, build, cols_of, fmt, from_jsonable, ops_of, to_jsonable
from ..relmodel import zand
from ..symx import explore, zint

PID = "C18"
LEVEL = "other"
LEAVES = {"X": ("a", "b", "c"), "Y": ("a", "b", "c"), "X2": ("a", "b", "c")}  # X2: another leaf object that *equals* X (same name)
LAZY = {"calc", "proj", "sel", "slice", "chain"}
EAGER = {"sort", "dedup", "mat"}
LABELS = ("calc d", "proj -a", "sel a>k", "slice s:e", "slice s:", "sort b,-a", "dedup", "sel false", "proj none")
LABELS2 = LABELS + ("sort a", "sort -a")  # one-directional sorts (what a top-N short-cut would look for), depth <= 2 (+ "sort a" at depth 3)


def _counting_payload(rows, materialized):
    from lsst.daf.relation import iteration

    if materialized:
        class CountingSeq(iteration.RowSequence):
            def __init__(self, rows):
                super().__init__(rows)
                self.starts = 0
                self.pulled = 0

            def __iter__(self):
                self.starts += 1
                for r in self.rows:
                    self.pulled += 1
                    yield r

        return CountingSeq(rows)

    class CountingIterable(iteration.RowIterable):
        def __init__(self, rows):
            self.rows = rows
            self.starts = 0
            self.pulled = 0

        def __iter__(self):
            self.starts += 1
            for r in self.rows:
                self.pulled += 1
                yield r

    return CountingIterable(rows)


def shapes(tier, seed):
    out = []
    depth = 3
    X, Y = ("leaf", "X"), ("leaf", "Y")

    def add(node, p, payload):
        try:
            cols_of(node, LEAVES)
        except IllTyped:
            return
        out.append({"prog": node, "params": p.params, "cons": p.cons, "payload": payload, "n": 2})

    for base in (X, ("chain", X, Y), ("mat", X)):
        for d in range(1, depth + 1):
            if base != X and d == depth:
                continue
            for labs, node, p in templates.unary_sequences(base, LEAVES, d, "std", slice_hi=4, labels=LABELS2 if d <= 2 else LABELS2[:-1]):
                for payload in ("seq", "gen"):
                    if payload == "gen" and d == depth and tier == "quick":
                        continue
                    add(node, p, payload)
                if d <= 2:
                    add(("mat", node), p, "gen")
                if d <= 1 and base == X:
                    add(("chain", node, _rename(node)), _double(p), "seq")
    # a user-defined operation (RowFilter is a documented extension point; the engine subclass implements the documented hook by
    # executing the target it is handed) above eager and lazy operations
    for d in (1, 2):
        for labs, node, p in templates.unary_sequences(X, LEAVES, d, "std", slice_hi=4, labels=("sort a", "sort b,-a", "dedup", "sel a>k", "slice s:e", "calc d")):
            for payload in ("seq", "gen"):
                add(("cust", node), p, payload)
            add(("dedup", ("cust", node)), p, "gen")
            add(("mat", ("cust", node)), p, "seq")
            add(("cust", ("mat", node)), p, "gen")
    # two leaf occurrences that compare equal (same engine, name and columns) but are different objects with their own payloads
    X2 = ("leaf", "X2")
    for a, b in ((X, X2), (("sel", X, ("gt", ("ref", "a"), ("lit", "$k1"))), ("sel", X2, ("gt", ("ref", "a"), ("lit", "$k1")))),
                 (("calc", X, "d", ("neg", ("ref", "a"))), ("calc", X2, "d", ("neg", ("ref", "a"))))):
        for top in (lambda n: n, lambda n: ("dedup", n), lambda n: ("slice", n, 0, 3), lambda n: ("chain", n, Y)):
            try:
                cols_of(top(("chain", a, b)), LEAVES)
            except IllTyped:
                continue
            for payload in ("seq", "gen"):
                out.append({"prog": top(("chain", a, b)), "params": {"$k1": [None, None]} if "$k1" in repr(a) else {}, "cons": [], "payload": payload, "n": 2})
    for f, second in later_pairs():
        for payload in ("seq", "map"):
            out.append({"pair": (f, second), "prog": second, "params": {"$k1": [None, None]} if "$k1" in repr((f, second)) else {}, "cons": [],
                        "payload": payload, "n": 2})
    return out


def later_pairs():
    """(first relation, second relation sharing nodes with it): executing and iterating the second must not change what
    re-iterating the first one's earlier result yields."""
    X, Y = ("leaf", "X"), ("leaf", "Y")
    A, B = ("ref", "a"), ("ref", "b")
    m1 = ("mat", ("dedup", X), "m1")
    m2 = ("mat", ("sort", X, ((B, False), (A, True))), "m2")
    m3 = ("mat", ("sel", X, ("gt", A, ("lit", "$k1"))), "m3")
    d1 = ("dedup", X)
    firsts = [m1, m2, m3, d1, X]
    out = []
    for f in firsts:
        for second in (("dedup", ("chain", f, Y)), ("sort", ("chain", f, Y), ((A, True),)), ("dedup", ("chain", Y, f)),
                       ("sort", f, ((A, False),)), ("dedup", ("proj", f, ("a",))), ("chain", f, f), ("slice", ("sort", f, ((B, True),)), 0, 1)):
            out.append((f, second))
    return out


def run_pair(first, second, env, payloads):
    memo = {}
    r1 = build(first, env, memo)
    it1 = r1.engine.execute(r1)
    l1 = [dict(r) for r in it1]
    r2 = build(second, env, memo)
    it2 = r2.engine.execute(r2)
    l2a = [dict(r) for r in it2]
    l2b = [dict(r) for r in it2]
    l1b = [dict(r) for r in it1]
    it1c = r1.engine.execute(r1)
    l1c = [dict(r) for r in it1c]
    return l1, l1b, l1c, l2a, l2b


def _rename(node):
    """Same operations over the other leaf with renamed parameters (second chain operand)."""
    if node[0] == "leaf":
        return ("leaf", "Y" if node[1] == "X" else "X")

    def ren(x):
        if isinstance(x, str) and x.startswith("$"):
            return x + "r"
        if isinstance(x, tuple):
            return tuple(ren(y) for y in x)
        return x

    if node[0] in ("chain",):
        return (node[0], _rename(node[1]), _rename(node[2]))
    return (node[0], _rename(node[1])) + tuple(ren(x) for x in node[2:])


def _double(p):
    q = templates.P()
    q.params = {**p.params, **{k + "r": v for k, v in p.params.items()}}
    q.cons = p.cons + [[a + "r", b + "r"] for a, b in p.cons]
    return q


def _under_eager(node, under=False, acc=None):
    """leaf name -> True if some eager operation is downstream of (above) it."""
    acc = {} if acc is None else acc
    op = node[0]
    if op == "leaf":
        acc[node[1]] = acc.get(node[1], False) or under
        return acc
    u = under or op in EAGER
    for x in node[1:3]:
        if isinstance(x, tuple) and x and x[0] in ("leaf", "calc", "proj", "sel", "dedup", "sort", "slice", "chain", "mat"):
            _under_eager(x, u, acc)
    return acc


def _under_eager_tree(rel, under=False, acc=None):
    """leaf name -> True if an eager node (Sort / Deduplication / Materialization) of the *built* tree is downstream of it."""
    from lsst.daf.relation import (BinaryOperationRelation, Deduplication, LeafRelation, MarkerRelation, Materialization, Sort,
                                   UnaryOperationRelation)

    acc = {} if acc is None else acc
    if isinstance(rel, LeafRelation):
        key = id(rel.payload)  # by payload object: two leaves may share a name
        acc[key] = acc.get(key, False) or under
    elif isinstance(rel, UnaryOperationRelation):
        _under_eager_tree(rel.target, under or isinstance(rel.operation, (Sort, Deduplication)), acc)
    elif isinstance(rel, BinaryOperationRelation):
        _under_eager_tree(rel.lhs, under, acc)
        _under_eager_tree(rel.rhs, under, acc)
    elif isinstance(rel, MarkerRelation):
        _under_eager_tree(rel.target, under or isinstance(rel, Materialization), acc)
    return acc


def cost(shape):
    ops = ops_of(shape["prog"])
    return (1 + 6 * ops.count("sort") + 2 * ops.count("dedup") + ops.count("sel") + ops.count("slice")) * (1 + 2 * ops.count("chain"))


def _run(prog, env, payloads, m=3):
    """Execute and iterate m times; returns list of (symptom, detail) problems and the row lists."""
    problems = []
    rel = build(prog, env)
    by_id = {id(p): k for k, p in payloads.items()}
    under = {k: False for k in payloads}
    under.update({by_id[i]: v for i, v in _under_eager_tree(rel).items() if i in by_id})
    before = {k: p.starts for k, p in payloads.items()}
    it = rel.engine.execute(rel)
    after_exec = {k: p.starts for k, p in payloads.items()}
    for k in payloads:
        if not under[k] and after_exec[k] != before[k]:
            problems.append(("leaf-iterated-during-execute", {"leaf": k, "starts": after_exec[k]}))
        if under[k] and after_exec[k] - before[k] > 1:
            problems.append(("eager-input-consumed-twice", {"leaf": k, "starts": after_exec[k]}))
    lists = []
    prev = dict(after_exec)
    for i in range(m):
        lists.append([dict(r) for r in it])
        now = {k: p.starts for k, p in payloads.items()}
        for k in payloads:
            if under[k] and now[k] != prev[k]:
                problems.append(("eager-input-consumed-after-execute", {"leaf": k, "iteration": i + 1}))
            if not under[k] and now[k] - prev[k] > 1:
                problems.append(("leaf-iterated-twice-in-one-pass", {"leaf": k, "iteration": i + 1, "starts": now[k] - prev[k]}))
        prev = now
    # a later execute() of the same relation: inputs of materializations are never consumed again
    from lsst.daf.relation import Materialization
    mat_leaves = {by_id[i]: v for i, v in _under_materialization(rel).items() if i in by_id}
    if mat_leaves:
        it2 = rel.engine.execute(rel)
        lists.append([dict(r) for r in it2])
        now = {k: p.starts for k, p in payloads.items()}
        for k in payloads:
            if mat_leaves.get(k) and now[k] != prev[k]:
                problems.append(("materialization-input-consumed-again-on-second-execute", {"leaf": k}))
    return rel, problems, lists


def _under_materialization(rel, under=False, acc=None):
    from lsst.daf.relation import BinaryOperationRelation, LeafRelation, MarkerRelation, Materialization, UnaryOperationRelation

    acc = {} if acc is None else acc
    if isinstance(rel, LeafRelation):
        key = id(rel.payload)
        acc[key] = acc.get(key, True) and under if key in acc else under
    elif isinstance(rel, UnaryOperationRelation):
        _under_materialization(rel.target, under, acc)
    elif isinstance(rel, BinaryOperationRelation):
        _under_materialization(rel.lhs, under, acc)
        _under_materialization(rel.rhs, under, acc)
    elif isinstance(rel, MarkerRelation):
        _under_materialization(rel.target, under or isinstance(rel, Materialization), acc)
    return acc


def _mk_env(shape, valfn, symbolic):
    from lsst.daf.relation import LeafRelation, iteration

    env = Env(symbolic=symbolic)
    payloads = {}
    used = {x for x in ("X", "Y", "X2") if f"'{x}'" in repr((shape["prog"], shape.get("pair")))}
    for name in sorted(used):
        cols = LEAVES[name]
        rows = [{env.tags[c]: valfn(name, c, i) for c in cols} for i in range(shape["n"] if name == "X" else 1)]
        if shape["payload"] == "map":
            key = tuple(t for t in frozenset(env.tags[c] for c in cols) if t.is_key)
            p = iteration.RowMapping(key, {i: r for i, r in enumerate(rows)})
            p.starts = 0
        else:
            p = _counting_payload(rows, shape["payload"] == "seq")
        payloads[name] = p
        rel = LeafRelation(env.engines["it1"], frozenset(env.tags[c] for c in cols), p, name=("X" if name == "X2" else name), min_rows=0,
                           max_rows=None if shape["payload"] == "gen" else len(rows))
        env.leaves[name] = rel
    return env, payloads


def _rows_equal(a, b):
    if len(a) != len(b) or any(set(x) != set(y) for x, y in zip(a, b)):
        return z3.BoolVal(False)
    return zand(zint(x[t]) == zint(y[t]) for x, y in zip(a, b) for t in x)


def run_pair_shape(shape):
    first, second = shape["pair"]

    def h(ctx):
        env, payloads = _mk_env(shape, lambda name, c, i: ctx.int(f"{name}.{c}{i}"), True)
        if shape["payload"] == "map":
            for name, p in payloads.items():
                rows = list(p.rows.values())
                for i in range(len(rows)):
                    for j in range(i + 1, len(rows)):
                        ctx.assume(z3.Or(*[zint(rows[i][t]) != zint(rows[j][t]) for t in p.unique_key]))
        templates.declare(ctx, env, shape["params"], shape["cons"])
        try:
            l1, l1b, l1c, l2a, l2b = run_pair(first, second, env, payloads)
        except Exception as e:  # noqa: BLE001
            return [("executes", False, {"exc": f"{type(e).__name__}: {e}"[:200]})]
        return [("earlier result re-iterated after a later execution gives the same rows", _rows_equal(l1, l1b), {}),
                ("re-executing the first relation gives the same rows", _rows_equal(l1, l1c), {}),
                ("second result iterated twice gives the same rows", _rows_equal(l2a, l2b), {})]

    res = explore(h, max_paths=3000, wall_s=200)
    out = res.as_dict()
    out["shape"] = {"first": fmt(first), "then": fmt(second), "payload": shape["payload"]}
    out["sample"] = {"first": fmt(first), "then": fmt(second), "payload": shape["payload"], "paths": res.paths}
    for cx in res.cex[:1]:
        vals = cx["model"]
        env, payloads = _mk_env(shape, lambda name, c, i: int(vals.get(f"{name}.{c}{i}", 0)), False)
        env.bind = templates.bind_concrete(shape["params"], vals)
        try:
            l1, l1b, l1c, l2a, l2b = run_pair(first, second, env, payloads)
            bad = "earlier-result-changed" if l1 != l1b else "re-execution-differs" if l1 != l1c else "rows-differ-between-iterations" if l2a != l2b else None
        except Exception as e:  # noqa: BLE001
            bad = f"raises:{type(e).__name__}"
        if bad is None:
            out["status"], out["detail"] = "harness-error", f"counterexample does not reproduce: {fmt(first)} then {fmt(second)}"
            return out
        out["status"] = VIOLATION
        out["violations"] = [{"site": f"{'>'.join(ops_of(first))} then {'>'.join(ops_of(second))}/{bad}/{shape['payload']}",
                              "summary": f"execute {fmt(first)}, then {fmt(second)}: {bad}",
                              "replay": {"shape": to_jsonable(shape), "vals": vals, "bind": env.bind, "symptom": bad, "pair": True}}]
        return out
    if res.inconclusive or not res.complete:
        out["status"], out["detail"] = INCONCLUSIVE, "; ".join(res.notes)[:100]
    else:
        out["status"] = HOLDS
    return out


def run_shape(shape, tier):
    if shape.get("pair"):
        return run_pair_shape(shape)
    prog = shape["prog"]
    info = {}

    def h(ctx):
        env, payloads = _mk_env(shape, lambda name, c, i: ctx.int(f"{name}.{c}{i}"), True)
        templates.declare(ctx, env, shape["params"], shape["cons"])
        try:
            rel, problems, lists = _run(prog, env, payloads)
        except Exception as e:  # noqa: BLE001
            return [("executes", False, {"exc": f"{type(e).__name__}: {e}"[:200]})]
        info.setdefault("tree", str(rel))
        obs = [(sym, False, det) for sym, det in problems]
        for i in range(1, len(lists)):
            same_len = len(lists[i]) == len(lists[0])
            obs.append((f"iteration {i + 1} same rows", z3.BoolVal(False) if not same_len else zand(
                zand(zint(a[t]) == zint(b[t]) for t in a) if set(a) == set(b) else z3.BoolVal(False)
                for a, b in zip(lists[0], lists[i])), {}))
        obs.append(("counters consistent", True, {}))
        return obs

    res = explore(h, max_paths=3000, wall_s=200)
    out = res.as_dict()
    out["shape"] = {"prog": fmt(prog), "payload": shape["payload"]}
    out["sample"] = {"program": fmt(prog), "tree": info.get("tree"), "payload": shape["payload"], "paths": res.paths,
                     "leaf under eager op": _under_eager(prog)}
    vios = []
    for cx in res.cex:
        m = cx["model"]
        bind = templates.bind_concrete(shape["params"], m)
        vals = {k: v for k, v in m.items()}
        fails, symptom, detail = concrete_check(shape, vals, bind)
        if not fails:
            out["status"] = "harness-error"
            out["detail"] = f"counterexample does not reproduce: {fmt(prog)} {bind} [{cx['label']}] {cx['info']}"
            return out
        mprog = common.minimise(prog, lambda p: concrete_check({**shape, "prog": p}, vals, bind)[1] == symptom)
        vios.append({"site": f"{'>'.join(ops_of(mprog))}/{symptom}/{shape['payload']}",
                     "summary": f"{fmt(mprog)} bind={bind}: {symptom} {detail}",
                     "replay": {"shape": to_jsonable({**shape, "prog": mprog}), "vals": vals, "bind": bind, "symptom": symptom}})
    if vios:
        out["status"], out["violations"] = VIOLATION, vios
    elif res.inconclusive or not res.complete:
        out["status"], out["detail"] = INCONCLUSIVE, "; ".join(res.notes)[:100]
    else:
        out["status"] = HOLDS
    return out


def concrete_check(shape, vals, bind):
    env, payloads = _mk_env(shape, lambda name, c, i: int(vals.get(f"{name}.{c}{i}", 0)), False)
    env.bind = dict(bind)
    try:
        rel, problems, lists = _run(shape["prog"], env, payloads)
    except Exception as e:  # noqa: BLE001
        return True, f"raises:{type(e).__name__}", str(e)[:150]
    if problems:
        return True, problems[0][0], problems[0][1]
    for i in range(1, len(lists)):
        if lists[i] != lists[0]:
            return True, "rows-differ-between-iterations", {"first": str(lists[0]), "later": str(lists[i])}
    return False, "", None


def replay(v):
    r = v["replay"]
    shape = r["shape"]
    shape["prog"] = from_jsonable(shape["prog"])
    if r.get("pair"):
        shape["pair"] = tuple(from_jsonable(x) for x in shape["pair"])
        out = run_pair_shape(shape)
        return out["status"] == VIOLATION, str(out.get("violations", [{}])[0].get("summary", "agrees"))
    fails, symptom, detail = concrete_check(shape, r["vals"], r["bind"])
    return fails and symptom == r["symptom"], f"{fmt(shape['prog'])}: {symptom} {detail}"


def describe(tier):
    return {
        "explanation": "Leaf payloads are counting RowSequence / non-materialized RowIterable subclasses supplied by the harness (one object per "
                       "leaf occurrence) holding symbolic row values; execute() and three full iterations of its result run under symx, so "
                       "every value-dependent path (selection outcomes, early slice exit, deduplication collisions, sort comparisons) is "
                       "taken.  Path assertions: lazy-only trees do not iterate leaves during execute and start at most one iteration per "
                       "leaf per pass; inputs of sort/dedup/materialization are consumed at most once, at execute time, never later; z3 "
                       "decides that repeated iterations yield equal rows.",
        "bounds": {"rows per leaf": 2, "depth": "<=3 over 9 operation templates, chains of two such operands, materialization at root/base",
                   "iterations of the result": 3},
        "outside": ["longer leaves / deeper trees", "custom RowIterable subclasses with other laziness contracts"],
        "assumptions": [],
    }
