"""C19 - generated relation names are unique across all calls and threads.

The AST of GenericConcreteEngine.get_relation_name is re-read from /repo on every run and
translated into an SMT string term (DESIGN.md 3/C19).
"""
from __future__ import annotations

import ast
import inspect
import textwrap
import threading
import time
import uuid

import z3

from ..driver import HOLDS, INCONCLUSIVE, VIOLATION
from ..symx import HarnessError

PID = "C19"
LEVEL = "other"


class Unencodable(HarnessError):
    pass


class Call:
    """Symbolic inputs of one invocation."""

    def __init__(self, i):
        self.i = i
        self.prefix = z3.String(f"prefix{i}")
        self.hexes = []  # uuid hex strings (len 32), one per uuid4() call
        self.ctrs = []  # renderings of the counter: unconstrained strings
        self.cons = []
        self.approximated = []
        self.depth = 0

    def new_hex(self, length=32):
        h = z3.String(f"uuid{self.i}_{len(self.hexes)}")
        self.hexes.append(h)
        self.cons.append(z3.Length(h) == length)
        return h

    def new_ctr(self):
        c = z3.String(f"ctr{self.i}_{len(self.ctrs)}")
        self.ctrs.append(c)
        return c

    def new_attr(self, name):
        """Any other attribute of the engine (instance or class level): an unconstrained string that may or may not be
        shared between calls / engines - over-approximates both."""
        self.attrs = getattr(self, "attrs", 0) + 1
        return z3.String(f"self.{name}{self.i}_{self.attrs}")


def _is_counter(node):
    return isinstance(node, ast.Attribute) and node.attr == "relation_name_counter"


def _is_uuid4_call(node):
    return (isinstance(node, ast.Call) and isinstance(node.func, ast.Attribute) and node.func.attr == "uuid4") or (
        isinstance(node, ast.Call) and isinstance(node.func, ast.Name) and node.func.id == "uuid4")


def tr_expr(node, call, env):
    if isinstance(node, ast.Constant) and isinstance(node.value, str):
        return z3.StringVal(node.value)
    if isinstance(node, ast.Name):
        if node.id in env:
            return env[node.id]
        raise Unencodable(f"unknown name {node.id}")
    if isinstance(node, ast.JoinedStr):
        parts = [tr_expr(v, call, env) for v in node.values]
        return z3.Concat(*parts) if len(parts) > 1 else (parts[0] if parts else z3.StringVal(""))
    if isinstance(node, ast.FormattedValue):
        if _is_counter(node.value) or (isinstance(node.value, ast.Name) and env.get(node.value.id) is COUNTER):
            return call.new_ctr()  # any format spec: over-approximated by an arbitrary string
        if isinstance(node.value, ast.Attribute) and isinstance(node.value.value, ast.Name) and node.value.value.id == "self":
            return call.new_attr(node.value.attr)  # any rendering of an engine attribute: arbitrary string
        if node.format_spec is not None or node.conversion not in (-1, 115):
            # a formatted rendering of some other value (e.g. f"{random.getrandbits(128):032x}"): nothing but uuid4 carries a
            # distinctness contract, so the rendering is an arbitrary string (sound over-approximation for the uniqueness VC;
            # a sat answer is replayed on the real code, also with the global PRNG re-seeded between requests)
            call.approximated.append(ast.unparse(node.value)[:60])
            return z3.String(f"fmt{call.i}_{len(call.approximated)}")
        return tr_expr(node.value, call, env)
    if isinstance(node, ast.IfExp):
        cond = tr_cond(node.test, call, env)
        a, b = tr_expr(node.body, call, env), tr_expr(node.orelse, call, env)
        return z3.If(cond, a, b) if cond is not None else call_opaque(call, node)
    if isinstance(node, ast.BinOp) and isinstance(node.op, ast.Add):
        return z3.Concat(tr_expr(node.left, call, env), tr_expr(node.right, call, env))
    if isinstance(node, ast.Attribute) and node.attr == "hex" and _is_uuid4_call(node.value):
        return call.new_hex(32)
    if isinstance(node, ast.Call) and isinstance(node.func, ast.Name) and node.func.id == "str" and len(node.args) == 1:
        a = node.args[0]
        if _is_counter(a) or (isinstance(a, ast.Name) and env.get(a.id) is COUNTER):
            return call.new_ctr()
        if _is_uuid4_call(a):
            return call.new_hex(36)
        return tr_expr(a, call, env)
    if isinstance(node, ast.Subscript) and isinstance(node.slice, ast.Slice):
        # a slice of a string: any substring of it (length unconstrained below the original) - over-approximation;
        # a truncated uuid no longer carries the distinctness contract
        whole = tr_expr(node.value, call, env)
        part = z3.String(f"slice{call.i}_{len(call.cons)}")
        call.cons.append(z3.Contains(whole, part))
        if whole in call.hexes:
            call.hexes.remove(whole)
        return part
    if _is_counter(node):
        raise Unencodable("counter used outside of string formatting")
    if isinstance(node, ast.Attribute) and isinstance(node.value, ast.Name) and node.value.id == "self":
        return call.new_attr(node.attr)
    if (isinstance(node, ast.Call) and isinstance(node.func, ast.Attribute) and isinstance(node.func.value, ast.Name)
            and node.func.value.id == "self" and not node.keywords and call.depth < 3):
        # a helper method of the engine: translate its body in the same call context (arguments bound positionally)
        from lsst.daf.relation import GenericConcreteEngine

        meth = getattr(GenericConcreteEngine, node.func.attr, None)
        if meth is not None:
            try:
                fn = ast.parse(textwrap.dedent(inspect.getsource(meth))).body[0]
                params = [a.arg for a in fn.args.args][1:]
                if len(params) >= len(node.args):
                    env2 = {p: tr_expr(a, call, env) for p, a in zip(params, node.args)}
                    call.depth += 1
                    try:
                        r = _tr_block(fn.body, call, env2)
                    finally:
                        call.depth -= 1
                    if r is not None:
                        return r
            except (OSError, TypeError, SyntaxError, Unencodable):
                pass
    # anything else (helper calls, other attributes, arithmetic): an unconstrained string - a sound over-approximation
    # for the uniqueness VC; recorded so that a non-reproducing counterexample is reported as inconclusive
    call.approximated.append(ast.unparse(node)[:60])
    return z3.String(f"opaque{call.i}_{len(call.approximated)}")


COUNTER = object()


def call_opaque(call, node):
    call.approximated.append(ast.unparse(node)[:60])
    return z3.String(f"opaque{call.i}_{len(call.approximated)}")


def tr_cond(node, call, env):
    """Boolean conditions over strings that occur in naming code; None if not translatable (caller over-approximates)."""
    if isinstance(node, ast.Call) and isinstance(node.func, ast.Attribute) and node.func.attr in ("endswith", "startswith") and len(node.args) == 1:
        s, x = tr_expr(node.func.value, call, env), tr_expr(node.args[0], call, env)
        return z3.SuffixOf(x, s) if node.func.attr == "endswith" else z3.PrefixOf(x, s)
    if isinstance(node, ast.UnaryOp) and isinstance(node.op, ast.Not):
        c = tr_cond(node.operand, call, env)
        return None if c is None else z3.Not(c)
    if isinstance(node, ast.Compare) and len(node.ops) == 1 and isinstance(node.ops[0], (ast.Eq, ast.NotEq)):
        a, b = tr_expr(node.left, call, env), tr_expr(node.comparators[0], call, env)
        return (a == b) if isinstance(node.ops[0], ast.Eq) else (a != b)
    if isinstance(node, ast.Name) and node.id in env and z3.is_string(env[node.id]):
        return z3.Length(env[node.id]) > 0
    return None


def _tr_block(stmts, call, env):
    for st in stmts:
        if isinstance(st, ast.Expr) and isinstance(st.value, ast.Constant):
            continue
        if isinstance(st, ast.Assign) and len(st.targets) == 1 and isinstance(st.targets[0], ast.Name):
            if _is_counter(st.value):
                env[st.targets[0].id] = COUNTER
            else:
                env[st.targets[0].id] = tr_expr(st.value, call, env)
            continue
        if isinstance(st, ast.AugAssign) and _is_counter(st.target):
            continue  # the update; its interleavings are over-approximated by the free counter rendering
        if isinstance(st, ast.Assign) and len(st.targets) == 1 and _is_counter(st.targets[0]):
            continue
        if isinstance(st, ast.With):
            r = _tr_block(st.body, call, env)
            if r is not None:
                return r
            continue
        if isinstance(st, ast.Return):
            return tr_expr(st.value, call, env)
        if (isinstance(st, ast.Assign) and len(st.targets) == 1 and isinstance(st.targets[0], ast.Tuple) and isinstance(st.value, ast.Tuple)
                and len(st.targets[0].elts) == len(st.value.elts) and all(isinstance(t, ast.Name) for t in st.targets[0].elts)):
            vals = [tr_expr(v, call, env) for v in st.value.elts]
            for t, v in zip(st.targets[0].elts, vals):
                env[t.id] = v
            continue
        if isinstance(st, ast.If):
            # both branches are translated; a condition the translator cannot read (a regular-expression match, a look-up) is a free
            # Boolean, names bound by walrus expressions in it are unconstrained strings - a sound over-approximation for the VCs
            for ne in ast.walk(st.test):
                if isinstance(ne, ast.NamedExpr) and isinstance(ne.target, ast.Name):
                    env[ne.target.id] = call_opaque(call, ne.value)
            cond = tr_cond(st.test, call, env)
            if cond is None:
                call.approximated.append("condition: " + ast.unparse(st.test)[:50])
                cond = z3.Bool(f"cond{call.i}_{len(call.approximated)}")
            env_t, env_e = dict(env), dict(env)
            r_t = _tr_block(st.body, call, env_t)
            r_e = _tr_block(st.orelse, call, env_e)
            for k in set(env_t) | set(env_e):
                vt, ve = env_t.get(k, env.get(k)), env_e.get(k, env.get(k))
                if vt is ve or ve is None:
                    env[k] = vt
                elif vt is None:
                    env[k] = ve
                elif z3.is_expr(vt) and z3.is_expr(ve):
                    env[k] = z3.If(cond, vt, ve)
                else:
                    env[k] = vt
            if r_t is None and r_e is None:
                continue
            rest = _tr_block(stmts[stmts.index(st) + 1:], call, env)
            a, b = (r_t if r_t is not None else rest), (r_e if r_e is not None else rest)
            if a is None or b is None:
                raise Unencodable("a branch of an if statement ends without a return")
            return z3.If(cond, a, b)
        if isinstance(st, ast.Expr):
            # a call made for its side effect (e.g. recording the name somewhere): it does not change what is returned by itself,
            # but state it writes may be read back - reads of engine state are unconstrained strings anyway
            call.approximated.append("side effect: " + ast.unparse(st)[:50])
            continue
        if isinstance(st, (ast.Assign, ast.AnnAssign, ast.AugAssign)):
            call.approximated.append("assignment: " + ast.unparse(st)[:50])
            continue
        raise Unencodable(f"statement {ast.dump(st)[:80]}")
    return None


def tr_function(fn_ast, call):
    """-> SMT string term returned by the function for this call."""
    env = {"prefix": call.prefix}
    args = [a.arg for a in fn_ast.args.args]
    if args[:2] != ["self", "prefix"]:
        raise Unencodable(f"unexpected signature {args}")

    r = _tr_block(fn_ast.body, call, env)
    if r is None:
        raise Unencodable("no return")
    return r


def _fn_ast():
    from lsst.daf.relation import GenericConcreteEngine

    src = textwrap.dedent(inspect.getsource(GenericConcreteEngine.get_relation_name))
    return ast.parse(src).body[0], src


def entry_point_names():
    """Names obtained through every entry point, each request issued twice on equal inputs, in both engine kinds.
    -> list of (label, prefix, name1, name2)"""
    import sqlalchemy as sa
    from lsst.daf.relation import LeafRelation, iteration, sql
    from ..prog import Tag

    a, b = Tag("a"), Tag("b")
    it, sq = iteration.Engine(name="it"), sql.Engine(name="sq")
    out = []

    def it_leaf(name=""):
        return it.make_leaf({a, b}, iteration.RowSequence([{a: 1, b: 2}, {a: 1, b: 2}]), name=name)

    def sq_leaf(name=""):
        md = sa.MetaData()
        t = sa.Table("t", md, sa.Column("a", sa.Integer), sa.Column("b", sa.Integer))
        return sq.make_leaf({a, b}, sql.Payload(t, columns_available={a: t.c.a, b: t.c.b}), name=name)

    out.append(("iteration leaf", "leaf", it_leaf().name, it_leaf().name))
    out.append(("sql leaf", "leaf", sq_leaf().skip_to.name, sq_leaf().skip_to.name))
    L = it_leaf("named")
    S = sq_leaf("named_sql")
    cases = {
        "iteration dedup.materialized()": lambda: L.without_duplicates().materialized(),
        "iteration transfer.materialized()": lambda: L.transferred_to(iteration.Engine(name="it2")).materialized(),
        "sql upload of a leaf .materialized()": lambda: L.transferred_to(sq).materialized(),
        "sql upload of a leaf, prefix": lambda: L.transferred_to(sq).materialized(name_prefix="upload"),
        "sql upload of an operation .materialized()": lambda: L.without_duplicates().transferred_to(sq).materialized(),
        "sql dedup.materialized()": lambda: S.without_duplicates().materialized(),
        "sql sliced .materialized(), win prefix": lambda: S.sorted([])[0:1].materialized(name_prefix="win"),
        "download .materialized()": lambda: S.transferred_to(it).materialized(),
    }
    from lsst.daf.relation import Materialization

    def mat_name(rel):
        while not isinstance(rel, Materialization):
            rel = rel.target
        return rel.name

    out.append(("engine.materialize (default prefix)", "materialization_", mat_name(it.materialize(L.without_duplicates())),
                mat_name(it.materialize(L.without_duplicates()))))
    out.append(("sql engine.materialize (default prefix)", "materialization_", mat_name(sq.materialize(S.without_duplicates())),
                mat_name(sq.materialize(S.without_duplicates()))))
    out.append(("leaf with a prefix ending in an underscore", "tmp_", it.make_leaf({a, b}, iteration.RowSequence([]), name_prefix="tmp_").name,
                it.make_leaf({a, b}, iteration.RowSequence([]), name_prefix="tmp_").name))
    for label, mk in cases.items():
        pfx = "upload" if "upload" in label and "prefix" in label else "win" if "win prefix" in label else "materialization"
        out.append((label, pfx, mat_name(mk()), mat_name(mk())))
    return out


def shapes(tier, seed):
    return ["translator-validation", "entry-points", "distinct", "prefix", "reachability-twin"] + (["second-solver"] if tier == "thorough" else [])


def _solver():
    s = z3.Solver()
    s.set("timeout", 60000)
    return s


def _distinct_query():
    fn, _ = _fn_ast()
    c1, c2 = Call(1), Call(2)
    n1, n2 = tr_function(fn, c1), tr_function(fn, c2)
    s = _solver()
    s.add(*c1.cons, *c2.cons)
    # uuid4 contract: values produced by different calls of uuid4() are pairwise distinct
    hs = c1.hexes + c2.hexes
    for i in range(len(hs)):
        for j in range(i + 1, len(hs)):
            s.add(hs[i] != hs[j])
    s.add(n1 == n2)
    return s, (c1, c2, n1, n2)


def _str(model, t):
    v = model.eval(t, model_completion=True)
    return v.as_string() if z3.is_string_value(v) else str(v)


class _FakeUUID:
    def __init__(self, h):
        self.hex = h

    def __str__(self):
        return self.hex


def _forced_lost_update(prefix, hexes=None):
    """Two threads, read/read/write/write schedule on the counter, real function."""
    from lsst.daf.relation import iteration

    barrier = threading.Barrier(2, timeout=5)

    class Eng(iteration.Engine):
        pass

    state = {"v": 0, "reads": 0}
    lock = threading.Lock()

    def getter(self):
        with lock:
            state["reads"] += 1
            v = state["v"]
            first_round = state["reads"] <= 2
        if first_round:
            try:
                barrier.wait()
            except threading.BrokenBarrierError:
                pass
        return v

    def setter(self, v):
        with lock:
            state["v"] = v

    Eng.relation_name_counter = property(getter, setter)
    e = Eng(name="forced")
    out = [None, None]

    def work(i):
        out[i] = e.get_relation_name(prefix)

    ts = [threading.Thread(target=work, args=(i,)) for i in range(2)]
    for t in ts:
        t.start()
    for t in ts:
        t.join(20)
    return out


def real_collision(prefix="leaf"):
    """Try to make the real function hand out equal names: sequentially, across engines, and under the
    forced lost-update schedule.  -> (collides, description)"""
    from lsst.daf.relation import iteration, sql

    tried = []
    for pfx in dict.fromkeys([prefix, "leaf", "p" * 62, "", "materialization_", "_", "x_"]):
        e1, e2 = iteration.Engine(name="e1"), sql.Engine(name="e2")
        names = [e1.get_relation_name(pfx), e1.get_relation_name(pfx), e2.get_relation_name(pfx), e2.get_relation_name(pfx)]
        if len(set(names)) != len(names):
            return True, f"sequential requests (prefix {pfx!r}) returned {names}"
        a, b = _forced_lost_update(pfx)
        if a is not None and a == b:
            return True, f"two threads under the read/read/write/write schedule both got {a!r}"
        # environment history: the process-global PRNG is seedable (reproducible runs, forked workers); only uuid4 /
        # os.urandom carry a distinctness contract.  Two engines asked after the same seeding:
        import random as _random
        state = _random.getstate()
        try:
            got = []
            for mk in (lambda: iteration.Engine(name="e1"), lambda: sql.Engine(name="e2")):
                _random.seed(12345)
                got.append(mk().get_relation_name(pfx))
        finally:
            _random.setstate(state)
        if got[0] == got[1]:
            return True, f"two engines asked after random.seed(12345) both returned {got[0]!r} (prefix {pfx!r})"
        # history-dependent prefixes: a name handed out earlier is passed back as the prefix of a later request (e.g.
        # materialized(name_prefix=leaf.name)), to the same engine and to fresh engines whose counters stand where e1's stood
        for mk in (lambda: e1, lambda: iteration.Engine(name="e3"), lambda: sql.Engine(name="e4")):
            first = iteration.Engine(name="e0").get_relation_name(pfx) if mk() is not e1 else names[0]
            again = mk().get_relation_name(first)
            if again == first or again in names:
                return True, f"a request with the earlier name {first!r} as prefix returned {again!r} again"
        # an engine duplicated together with its state (copy.deepcopy, a pickle round trip): the copies are different engines
        import copy as _copy
        import pickle as _pickle
        for dup in (_copy.deepcopy, lambda e: _pickle.loads(_pickle.dumps(e))):
            for mk in (lambda: iteration.Engine(name="e5"), lambda: sql.Engine(name="e6")):
                orig = mk()
                orig.get_relation_name(pfx)
                try:
                    twin = dup(orig)
                except Exception:  # noqa: BLE001 - an engine that cannot be copied cannot collide this way
                    continue
                got2 = [orig.get_relation_name(pfx), twin.get_relation_name(pfx), orig.get_relation_name(pfx), twin.get_relation_name(pfx)]
                if len(set(got2)) != len(got2):
                    return True, f"an engine and its copy (prefix {pfx!r}) returned {got2}"
        tried.append((pfx[:8], names[:2], [a, b]))
    # the encoding admits a collision through engine state that the code reads back: let real threads race for it (only reached
    # when the solver found the VC satisfiable, i.e. never on code whose names are distinct by construction)
    found, runs = _scheduled_collision(prefix if prefix else "leaf")
    if found:
        return True, f"two threads on one engine, {found}"
    tried.append(f"{runs} line-level schedules of two threads")
    dup = _stress(prefix if prefix else "leaf")
    if dup:
        return True, f"threads racing on one engine: {dup}"
    return False, f"no collision reproduced: {tried}"


def _run_schedule(plan, prefix):
    """Two threads call the real get_relation_name on one engine; a line tracer lets thread `plan[k][0]` execute `plan[k][1]`
    lines of the function (None = until it returns) in turn.  A thread that cannot take its turn (blocked in a lock the other
    one holds) is skipped after a short timeout.  -> (name of thread 0, name of thread 1)"""
    import sys
    from lsst.daf.relation import GenericConcreteEngine, iteration

    code = GenericConcreteEngine.get_relation_name.__code__
    e = iteration.Engine(name="sched")
    cv = threading.Condition()
    state = {"seg": 0, "left": plan[0][1], "done": [False, False]}
    out = [None, None]

    def my_turn(i):
        return state["seg"] >= len(plan) or plan[state["seg"]][0] == i or state["done"][plan[state["seg"]][0]]

    def advance(i):
        # called by thread i after it was granted one line
        if state["seg"] < len(plan) and plan[state["seg"]][0] == i and state["left"] is not None:
            state["left"] -= 1
            if state["left"] <= 0:
                state["seg"] += 1
                state["left"] = plan[state["seg"]][1] if state["seg"] < len(plan) else None
        cv.notify_all()

    def tracer_for(i):
        def local(frame, event, arg):
            if event == "line":
                with cv:
                    waited = 0.0
                    while not my_turn(i) and waited < 0.3:
                        cv.wait(0.02)
                        waited += 0.02
                    if not my_turn(i):  # the scheduled thread is stuck (e.g. waits for a lock this thread holds): skip its segment
                        state["seg"] += 1
                        state["left"] = plan[state["seg"]][1] if state["seg"] < len(plan) else None
                    advance(i)
            return local

        def glob(frame, event, arg):
            return local if frame.f_code is code else None
        return glob

    def work(i):
        sys.settrace(tracer_for(i))
        try:
            out[i] = e.get_relation_name(f"{prefix}")
        finally:
            sys.settrace(None)
            with cv:
                state["done"][i] = True
                if state["seg"] < len(plan) and plan[state["seg"]][0] == i:
                    state["seg"] += 1
                    state["left"] = plan[state["seg"]][1] if state["seg"] < len(plan) else None
                cv.notify_all()

    ts = [threading.Thread(target=work, args=(i,)) for i in range(2)]
    for th in ts:
        th.start()
    for th in ts:
        th.join(10)
    return out


def _scheduled_collision(prefix, max_lines=12):
    """All schedules of two concurrent requests with at most two pre-emptions at line granularity inside get_relation_name."""
    runs = 0
    for first in (0, 1):
        other = 1 - first
        for k in range(0, max_lines + 1):
            plans = [[(first, k), (other, None), (first, None)]]
            plans += [[(first, k), (other, m), (first, None), (other, None)] for m in range(1, max_lines + 1)]
            for plan in plans:
                plan = [seg for seg in plan if seg[1] is None or seg[1] > 0]
                a, b = _run_schedule(plan, prefix)
                runs += 1
                if a is not None and a == b:
                    return f"schedule {plan} (thread, lines of get_relation_name): both requests returned {a!r}", runs
                if (a is not None and not a.startswith(prefix)) or (b is not None and not b.startswith(prefix)):
                    return f"schedule {plan}: a returned name does not start with the requested prefix ({a!r}, {b!r})", runs
    return None, runs


def _stress(prefix, threads=8, calls=6000):
    import sys
    from lsst.daf.relation import iteration
    from ..prog import Tag

    e = iteration.Engine(name="stress")
    a = Tag("a")
    payload = iteration.RowSequence([])
    out = [[] for _ in range(threads)]
    old = sys.getswitchinterval()
    sys.setswitchinterval(1e-6)
    barrier = threading.Barrier(threads, timeout=30)
    budget_s = 60.0

    def work(i):
        mine = out[i]
        pfx = f"{prefix}{i}"
        try:
            barrier.wait()
        except threading.BrokenBarrierError:
            return
        for k in range(calls):  # names through leaf construction and through direct requests, all threads at once
            if k % 2:
                mine.append((pfx, e.make_leaf({a}, payload=payload, name_prefix=pfx).name))
            else:
                mine.append((pfx, e.get_relation_name(pfx)))

    try:
        ts = [threading.Thread(target=work, args=(i,)) for i in range(threads)]
        for th in ts:
            th.start()
        for th in ts:
            th.join(budget_s + 10)
    finally:
        sys.setswitchinterval(old)
    names = [n for lst in out for _, n in lst]
    wrong = [(p, n) for lst in out for p, n in lst if not n.startswith(p)]
    if len(set(names)) != len(names):
        seen, d = set(), None
        for n in names:
            if n in seen:
                d = n
                break
            seen.add(n)
        return f"{len(names) - len(set(names))} of {len(names)} names handed out more than once, e.g. {d!r}"
    if wrong:
        return f"{len(wrong)} names do not start with the requested prefix, e.g. {wrong[0]}"
    return None


def run_shape(shape, tier):
    t0 = time.time()
    out = {"shape": shape, "paths": 1, "queries": 0, "solver_s": 0.0, "obligations": 0, "discharged": 0,
           "functions": ["_engine.py:GenericConcreteEngine.get_relation_name"]}
    fn, src = _fn_ast()
    if shape == "translator-validation":
        # the real function with uuid4 patched must return exactly the model's string
        from lsst.daf.relation import LeafRelation, iteration
        import lsst.daf.relation._engine as engmod

        e = iteration.Engine(name="tv")
        e.relation_name_counter = 7
        hexes = ["0123456789abcdef0123456789abcdef", "fedcba9876543210fedcba9876543210", "00000000000000000000000000000001"]
        it = iter(hexes)
        orig = uuid.uuid4
        orig_local = getattr(engmod, "uuid4", None)
        uuid.uuid4 = lambda: _FakeUUID(next(it))
        if orig_local is not None:
            engmod.uuid4 = uuid.uuid4
        try:
            real = [e.get_relation_name("pfx"), LeafRelation(e, frozenset(), iteration.RowSequence([]), name="").name]
            leaf = LeafRelation(e, frozenset(), iteration.RowSequence([{}]), name="L0", min_rows=0, max_rows=None)
            from lsst.daf.relation import Deduplication
            mat = Deduplication().apply(leaf).materialized()
            real.append(mat.name)
        finally:
            uuid.uuid4 = orig
            if orig_local is not None:
                engmod.uuid4 = orig_local
        expect_prefix = ["pfx", "leaf", "materialization"]
        ok = True
        detail = []
        for k, (name, pfx, hx) in enumerate(zip(real, expect_prefix, hexes)):
            c = Call(0)
            term = tr_function(fn, c)
            s = _solver()
            s.add(c.prefix == z3.StringVal(pfx), term == z3.StringVal(name), *c.cons)
            for h in c.hexes:
                s.add(h == z3.StringVal(hx))
            r = s.check()
            out["queries"] += 1
            detail.append({"real": name, "model_admits": str(r)})
            ok = ok and r == z3.sat
        out["obligations"] = out["discharged"] = len(real)
        out["sample"] = {"translator validation": detail, "source": src.strip().splitlines()[-3:]}
        if not ok:
            out["status"] = "harness-error"
            out["detail"] = f"model does not admit the names the real code returns: {detail}"
        else:
            out["status"] = HOLDS
        return out
    if shape == "entry-points":
        # every name an entry point hands out must come from get_relation_name (sentinel test), and two equal requests
        # must give different names (concrete replay of the uniqueness claim at the entry points)
        import lsst.daf.relation._engine as engmod
        from lsst.daf.relation import GenericConcreteEngine

        problems = []
        names = entry_point_names()
        for label, pfx, n1, n2 in names:
            if n1 == n2:
                problems.append(("entry-point-collision", f"{label}: two equal requests both got {n1!r}"))
            if not (n1.startswith(pfx) and n2.startswith(pfx)):
                problems.append(("entry-point-prefix", f"{label}: {n1!r} does not start with {pfx!r}"))
        counter = {"n": 0}
        orig = GenericConcreteEngine.get_relation_name

        def sentinel(self, prefix="leaf"):
            counter["n"] += 1
            return f"{prefix}#SENTINEL{counter['n']}"

        GenericConcreteEngine.get_relation_name = sentinel
        try:
            for label, pfx, n1, n2 in entry_point_names():
                if "#SENTINEL" not in n1 or "#SENTINEL" not in n2:
                    problems.append(("entry-point-bypasses-get_relation_name", f"{label}: {n1!r}"))
        finally:
            GenericConcreteEngine.get_relation_name = orig
        out["obligations"] = 3 * len(names)
        out["discharged"] = out["obligations"] - len(problems)
        out["sample"] = {"entry points": [n[0] for n in names], "example": names[3][2]}
        collisions = [p for p in problems if p[0] != "entry-point-bypasses-get_relation_name"]
        if collisions:
            out["status"] = VIOLATION
            out["violations"] = [{"site": collisions[0][0], "summary": collisions[0][1], "replay": {"kind": "entry-points"}}]
        elif problems:
            # a name not taken from get_relation_name is outside the encoded function: the uniqueness VC says nothing about it
            out["status"], out["detail"] = INCONCLUSIVE, problems[0][1][:200]
        else:
            out["status"] = HOLDS
        return out
    if shape in ("distinct", "reachability-twin", "second-solver"):
        s, (c1, c2, n1, n2) = _distinct_query()
        if shape == "reachability-twin":
            # without the uuid-distinctness contract a collision must be possible (else the encoding is vacuous)
            fn2, _ = _fn_ast()
            a, b = Call(1), Call(2)
            s2 = _solver()
            s2.add(*a.cons, *b.cons, tr_function(fn2, a) == tr_function(fn2, b))
            r = s2.check()
            out["queries"] += 1
            out["status"] = HOLDS if r == z3.sat else "harness-error"
            out["detail"] = f"twin (no distinctness assumption): {r}"
            out["sample"] = {"twin": str(r)}
            return out
        if shape == "second-solver":
            import subprocess, tempfile, os
            smt = "(set-logic ALL)\n" + s.to_smt2()
            verdicts = {"z3-wheel": str(s.check())}
            try:
                import cvc5
                slv = cvc5.Solver()
                slv.setOption("strings-exp", "true")
                slv.setOption("tlimit-per", "60000")
                p = cvc5.InputParser(slv)
                p.setStringInput(cvc5.InputLanguage.SMT_LIB_2_6, smt, "q")
                sm = p.getSymbolManager()
                res = []
                while True:
                    cmd = p.nextCommand()
                    if cmd.isNull():
                        break
                    o = cmd.invoke(slv, sm).strip()
                    if o:
                        res.append(o)
                verdicts["cvc5-wheel"] = res[-1] if res else "?"
            except Exception as e:  # noqa: BLE001
                verdicts["cvc5-wheel"] = f"unavailable: {type(e).__name__}"
            out["queries"] += 2
            out["sample"] = {"second solver": verdicts}
            vs = {v for v in verdicts.values() if v in ("sat", "unsat")}
            if len(vs) > 1 or any("error" in v for v in verdicts.values()):
                out["status"] = "harness-error"
                out["detail"] = f"solvers disagree: {verdicts}"
            else:
                out["status"] = HOLDS
            out["obligations"] = out["discharged"] = 1
            return out
        t = time.time()
        r = s.check()
        out["queries"] += 1
        out["solver_s"] = time.time() - t
        out["obligations"] = 1
        out["sample"] = {"vc": "name(call1) == name(call2) with all uuid4 values pairwise distinct, prefixes and counter renderings "
                               "unconstrained", "verdict": str(r), "term": str(n1)}
        if r == z3.unsat:
            out["discharged"] = 1
            out["status"] = HOLDS
            return out
        if r == z3.unknown:
            out["status"], out["detail"] = INCONCLUSIVE, "solver unknown"
            return out
        m = s.model()
        witness = {"name": _str(m, n1), "prefix1": _str(m, c1.prefix), "prefix2": _str(m, c2.prefix)}
        coll, desc = real_collision(witness["prefix1"] if witness["prefix1"] == witness["prefix2"] else "leaf")
        if not coll:
            # the encoding over-approximates (counter rendering, opaque sub-expressions, lock-free reading of the source):
            # a collision the real code does not show under sequential, cross-engine and forced lost-update replays is
            # not a finding and not evidence of a wrong harness - it is reported as not decided
            out["status"] = INCONCLUSIVE
            out["detail"] = (f"encoding admits a collision ({witness}; opaque: {c1.approximated}) that the real code does not reproduce: {desc}")[:300]
            return out
        out["status"] = VIOLATION
        out["violations"] = [{"site": "collision", "summary": desc, "replay": {"kind": "collision", "prefix": "leaf"}}]
        return out
    if shape == "prefix":
        c = Call(1)
        term = tr_function(fn, c)
        s = _solver()
        s.add(*c.cons, z3.Not(z3.PrefixOf(c.prefix, term)))
        t = time.time()
        r = s.check()
        out["queries"] += 1
        out["solver_s"] = time.time() - t
        out["obligations"] = 1
        out["sample"] = {"vc": "prefix is a prefix of the returned name", "verdict": str(r)}
        if r == z3.unsat:
            out["discharged"] = 1
            out["status"] = HOLDS
            return out
        if r == z3.unknown:
            out["status"], out["detail"] = INCONCLUSIVE, "solver unknown"
            return out
        from lsst.daf.relation import iteration
        m = s.model()
        ctr = 0
        pfx = _str(m, c.prefix) or "leaf"
        name = iteration.Engine(name="p").get_relation_name(pfx)
        if name.startswith(pfx):
            name = iteration.Engine(name="p").get_relation_name("leaf")
            pfx = "leaf"
        if name.startswith(pfx):
            # a name handed out earlier used as the prefix of a later request
            for seed_pfx in ("leaf", "materialization", pfx):
                first = iteration.Engine(name="p").get_relation_name(seed_pfx)
                for k in range(3):
                    eng = iteration.Engine(name="q")
                    eng.relation_name_counter = k
                    nxt = eng.get_relation_name(first)
                    if not nxt.startswith(first):
                        pfx, name, ctr = first, nxt, k
                        break
                if not name.startswith(pfx):
                    break
        if name.startswith(pfx):
            out["status"] = INCONCLUSIVE
            out["detail"] = f"encoding does not force the prefix (opaque: {c.approximated}); real code returned {name!r} for {pfx!r}"
            return out
        out["status"] = VIOLATION
        out["violations"] = [{"site": "prefix", "summary": f"get_relation_name({pfx!r}) returned {name!r}",
                              "replay": {"kind": "prefix", "prefix": pfx, "counter": ctr}}]
        return out
    raise ValueError(shape)


def replay(v):
    r = v["replay"]
    if r["kind"] == "entry-points":
        bad = [(l, a, b) for l, p, a, b in entry_point_names() if a == b or not a.startswith(p)]
        return bool(bad), f"entry points with colliding / unprefixed names: {bad[:2]}"
    if r["kind"] == "prefix":
        from lsst.daf.relation import iteration
        eng = iteration.Engine(name="p")
        eng.relation_name_counter = r.get("counter", 0)
        name = eng.get_relation_name(r["prefix"])
        return not name.startswith(r["prefix"]), f"get_relation_name({r['prefix']!r}) -> {name!r}"
    coll, desc = real_collision(r["prefix"])
    return coll, desc


def describe(tier):
    return {
        "explanation": "The AST of GenericConcreteEngine.get_relation_name (re-read from /repo) is translated to an SMT string term; "
                       "prefix free, every rendering of the non-atomic counter an unconstrained string (over-approximates all thread "
                       "interleavings, engines and format specs), uuid4().hex a string of length 32.  z3 decides that two arbitrary "
                       "calls cannot return equal names when uuid4 values are pairwise distinct, and that the prefix is a prefix.  "
                       "Pairwise distinctness of two arbitrary calls gives every history / schedule.  A sat answer is replayed "
                       "sequentially and with a forced read/read/write/write schedule on the counter.",
        "bounds": {"calls": "2 arbitrary calls (pairwise => any number)", "string lengths": "unbounded"},
        "outside": ["uuid4 collisions (assumed away: contract of uuid4)", "a lock-protected counter-only scheme would be reported as harness error, not proven"],
        "assumptions": ["uuid.uuid4() returns pairwise distinct values whose .hex has length 32", "LeafRelation(name='') and "
                        "materialized() obtain names only through get_relation_name (checked by translator validation)"],
        "exhaustive": True,
    }
