"""C11 - the SQL engine honours sort order for slices and trailing sorts, or refuses."""
from __future__ import annotations

import z3

from .. import common, relmodel, sqlmodel, sqlprogs, symproc, templates
from ..driver import HOLDS, INCONCLUSIVE, UNDECIDED, VIOLATION
from ..prog import Env, build, fmt, from_jsonable, ops_of, pyeval, sem_seq, shared_nonkey, to_jsonable
from ..symx import Skip, explore, zint

PID = "C11"
LEVEL = "translation_validation"
A, B, V, D = sqlprogs.A, sqlprogs.B, sqlprogs.V, sqlprogs.D
TOTAL_X = ((A, True), (B, False), (V, True))
PCOLS = ("a", "b", "c")  # the iteration-engine leaf P of the "processed" family (all key columns)
PN = 3


def _buried():
    """Programs in which a sort without slice would have to be buried under a join, chain or materialization."""
    X, Y, Z = ("leaf", "X"), ("leaf", "Y"), ("leaf", "Z")
    sx = ("sort", X, TOTAL_X)
    sy = ("sort", Y, ((A, True),))
    variants = [sx, ("proj", sx, ("a", "b")), ("dedup", sx), ("sel", sx, ("gt", A, ("lit", "$k"))), ("calc", sx, "d", ("neg", A)),
                ("sort", ("slice", sx, 1, 3), ((B, True),)), ("proj", ("dedup", sx), ("a",))]
    out = []
    for v in variants:
        out.append(("chain", v, Y) if sqlprogs.cols_of(v, sqlprogs.LEAFCOLS) == frozenset("abv") else ("join", v, Z, None))
        out.append(("join", v, Z, None))
        out.append(("join", Z, v, None))
        out.append(("mat", v))
    out.append(("chain", X, sy))
    out.append(("chain", sy, ("sort", X, ((B, False),))))
    return [(p, {"$k": [None, None]} if "$k" in repr(p) else {}, []) for p in out]


def shapes(tier, seed):
    out = []
    n_un = 3 if tier == "quick" else 4
    for node, params, cons in sqlprogs.unary_programs(tier, n_un + 2):
        if "sort" in ops_of(node):
            out.append({"prog": node, "params": params, "cons": cons, "n": n_un, "kind": "order"})
    for node, params, cons in sqlprogs.binary_programs(tier, 4):
        if "sort" in ops_of(node):
            out.append({"prog": node, "params": params, "cons": cons, "n": 2, "kind": "order"})
    for node, params, cons in sqlprogs.nested_programs(tier, 4):
        if "sort" in ops_of(node):
            out.append({"prog": node, "params": params, "cons": cons, "n": 2, "kind": "order"})
    for node, params, cons in _buried():
        out.append({"prog": node, "params": params, "cons": cons, "n": 2, "kind": "buried"})
    # SQL-side trees downstream of a transfer, as Processor.process rebuilds them (every operation re-applied to the processed
    # upstream, every SELECT marker rebuilt from its tree): the statement compiled from the *processed* tree is what a database sees
    src = ("xfer", ("leaf", "P"), "sq")
    labels = ("sort total", "sort b,-a", "dedup", "proj -c", "proj a", "slice s:e", "sel a>k", "calc d")
    for depth in (2, 3):
        for labs, node, p in templates.unary_sequences(src, {"P": PCOLS}, depth, "std", slice_hi=PN + 1, labels=labels):
            if "sort total" in labs and (depth == 2 or "slice s:e" in labs):
                out.append({"prog": node, "params": p.params, "cons": p.cons, "n": PN, "kind": "processed"})
    return out


def cost(shape):
    ops = ops_of(shape["prog"])
    return (1 + 8 * ops.count("slice") + 3 * ops.count("sort") + 2 * ops.count("join")) * shape["n"] ** 2


def _trailing_ok(prog):
    """Operations after the last sort are only slices, projections and deduplications (and the sort is at the root branch)."""
    node = prog
    while node[0] != "sort":
        if node[0] not in ("slice", "proj", "dedup"):
            return False
        node = node[1]
    return bool(node[2])


def _must_refuse(prog):
    """Some join/chain/materialization operand carries a sort with no slice after it."""
    def sorted_unsliced(n):
        # walks the unary chain of an operand from the top
        seen_slice = False
        while n[0] not in ("leaf", "join", "chain", "mat"):
            if n[0] == "slice" and not (n[2] in (None, 0) and n[3] is None):
                seen_slice = True
            if n[0] == "sort" and n[2] and not seen_slice:
                return True
            if n[0] == "sort" and n[2] and seen_slice:
                return False
            n = n[1]
        return False

    def walk(n):
        if n[0] == "leaf":
            return False
        if n[0] in ("join", "chain"):
            return sorted_unsliced(n[1]) or sorted_unsliced(n[2]) or walk(n[1]) or walk(n[2])
        if n[0] == "mat":
            return sorted_unsliced(n[1]) or walk(n[1])
        return walk(n[1])

    return walk(prog)


def run_shape(shape, tier):
    from lsst.daf.relation import RelationalAlgebraError

    if shape["kind"] == "processed":
        return run_processed(shape, tier)
    prog, n = shape["prog"], shape["n"]
    cache = {}
    info = {}
    must_refuse = _must_refuse(prog)

    def h(ctx):
        env = Env(symbolic=True)
        sqlprogs.setup_leaves(ctx, env, prog, n)
        templates.declare(ctx, env, shape["params"], shape["cons"])
        sqlprogs.history(env, prog)
        try:
            rel = build(prog, env)
        except RelationalAlgebraError as e:
            if "row order" in str(e):
                if must_refuse:
                    return [("buried sort refused", True, {})]
                return [("no spurious row-order refusal", False, {"exc": str(e)[:150]})]
            raise Skip(f"rejected at construction: {type(e).__name__}")
        except Exception as e:  # noqa: BLE001
            raise Skip(f"construction fails: {type(e).__name__} (see C05/C08)")
        info.setdefault("tree", str(rel))
        if must_refuse:
            return [("buried sort refused", False, {"tree": str(rel)})]
        try:
            ex = env.engines["sq"].to_executable(rel)
        except Exception as e:  # noqa: BLE001
            raise Skip(f"compile failure: {type(e).__name__} (see C08)")
        if "ref" not in cache:
            cache["ref"] = sem_seq(prog, env, prefer="r")
        ref = cache["ref"]
        order_promised = ref.ordered and ref.det and _trailing_ok(prog)
        if not order_promised and not ("slice" in ops_of(prog) and "sort" in ops_of(prog)):
            raise Skip("root order not promised by the property (no trailing total sort)")
        try:
            got = sqlprogs.strip_ignored(sqlmodel.select(ex, env.tables))
        except sqlmodel.OutsideModel as e:
            # the program is determinate, yet the statement is outside the model (e.g. OFFSET without ORDER BY): remember the
            # parameter values of this path so that the statement is at least executed on the real SQLite afterwards
            if ctx.check() == z3.sat and len(info.setdefault("outside", [])) < 4:
                from ..symx import model_values
                info["outside"].append(templates.bind_concrete(shape["params"], model_values(ctx.solver.model(), ctx.vars)))
            raise Skip(f"outside SQL model: {e}")
        except sqlmodel.SqlInvalid as e:
            if "no such table" in str(e):
                # not a translation of this tree at all: the statement reads a table that is not one of the tree's leaves
                return [("the SQL reads only the leaf tables of the tree", False, {"why": str(e), "sql": str(ex)[:200]})]
            raise Skip(f"invalid SQL: {e} (see C08)")
        info.setdefault("sql", str(ex)[:300])
        if not order_promised:
            # the windows inside the program are determinate: at least the multiset of rows is fixed
            if not ref.det and not ref.sliced:
                raise Skip("root order not promised by the property (no trailing total sort)")
            return [("rows of the windows (multiset)", relmodel.mset_eq(relmodel.unordered(got), relmodel.unordered(ref)), {})]
        if not got.ordered:
            info["unspecified"] = True
            raise Skip("order unspecified by SQL (no outer ORDER BY)")
        return [("rows in order", relmodel.seq_eq(got, ref), {})]

    res = explore(h, max_paths=600, wall_s=150 if tier == "quick" else 900)
    out = res.as_dict()
    out["shape"] = fmt(prog)
    out["sample"] = {"program": fmt(prog), "tree": info.get("tree"), "sql": info.get("sql"), "slots per leaf": n,
                     "paths": res.paths, "kind": shape["kind"]}
    vios = []
    for cx in res.cex:
        m = cx["model"]
        bind = templates.bind_concrete(shape["params"], m)
        rows = {name: (common.rows_from_model(m, name, sqlprogs.table_cols(name), n) if name != "I" else [{}]) for name in sqlprogs.leaves_in(prog)}
        fails, symptom, detail = concrete_check(prog, rows, bind)
        if not fails:
            out["status"] = "harness-error"
            out["detail"] = f"counterexample does not reproduce on SQLite: {fmt(prog)} {bind} {rows} [{cx['label']}] {cx['info']}"
            return out
        mprog = common.minimise(prog, lambda p: concrete_check(p, rows, bind)[1] == symptom)
        md = concrete_check(mprog, rows, bind)[2]
        vios.append({"site": f"{'>'.join(ops_of(mprog))}/{symptom}", "summary": f"{fmt(mprog)} bind={bind} tables={rows}: {symptom} {md}",
                     "replay": {"prog": to_jsonable(mprog), "rows": rows, "bind": bind, "symptom": symptom}})
    if not vios:
        for bind in info.get("outside", []):
            fails, symptom, detail = concrete_check(prog, sqlprogs.BATTERY, bind)
            if fails:
                vios.append({"site": f"{'>'.join(ops_of(prog))}/{symptom}/statement-outside-model", "summary": f"{fmt(prog)} bind={bind} battery tables: {symptom} {detail}",
                             "replay": {"prog": to_jsonable(prog), "rows": sqlprogs.BATTERY, "bind": bind, "symptom": symptom}})
                break
    if vios:
        out["status"], out["violations"] = VIOLATION, vios
        return out
    if info.get("unspecified"):
        # the SQL model promises no order: execute on the real SQLite under both scan orders with the fixed battery
        bind = sqlprogs.battery_bind(shape["params"])
        fails, symptom, detail = concrete_check(prog, sqlprogs.BATTERY, bind)
        if fails:
            out["status"] = VIOLATION
            out["violations"] = [{"site": f"{'>'.join(ops_of(prog))}/{symptom}/no-outer-order-by",
                                  "summary": f"{fmt(prog)} bind={bind} battery tables: {symptom} {detail}",
                                  "replay": {"prog": to_jsonable(prog), "rows": sqlprogs.BATTERY, "bind": bind, "symptom": symptom}}]
        else:
            out["status"], out["detail"] = UNDECIDED, "order unspecified by SQL, not refuted on SQLite (both scan orders)"
        return out
    if res.inconclusive or not res.complete:
        out["status"], out["detail"] = INCONCLUSIVE, "; ".join(res.notes)[:100]
    elif res.skipped and not res.obligations:
        out["status"], out["detail"] = UNDECIDED, res.skipped
    else:
        bad = sqlprogs.validate_model(prog, shape["params"])
        out["counters"] = {"programs whose SQL model evaluation was compared with a real SQLite run": 1}
        if bad:
            out["status"], out["detail"] = "harness-error", "SQL model disagrees with SQLite: " + bad
        else:
            out["status"] = HOLDS
    return out


def _processed(prog, env):
    """Build the tree, let a Processor (hooks evaluating for real on the symbolic database) process it, compile the processed tree
    with the real engine and read the statement with the SQL model."""
    tree = build(prog, env)
    db = symproc.SymDB(env)
    out = symproc.make_processor(db, []).process(tree)
    ex = env.engines["sq"].to_executable(out)
    return tree, out, ex, sqlprogs.strip_ignored(sqlmodel.select(ex, env.tables))


def _processed_env(ctx, shape, model=None):
    env = Env(symbolic=ctx is not None)
    env.sql_mode = True
    rows = [{c: (ctx.int(f"P.{c}{i}") if ctx is not None else int(model.get(f"P.{c}{i}", 0))) for c in PCOLS} for i in range(shape["n"])]
    env.add_iter_leaf("P", PCOLS, rows, engine="it1")
    env.tables["P"] = relmodel.unordered(env.tables["P"])  # whatever order the rows had is gone once they sit in a table
    return env, rows


def run_processed(shape, tier):
    from lsst.daf.relation import RelationalAlgebraError

    prog = shape["prog"]
    info = {}
    cache = {}

    def h(ctx):
        env, _ = _processed_env(ctx, shape)
        templates.declare(ctx, env, shape["params"], shape["cons"])
        try:
            tree, out, ex, got = _processed(prog, env)
        except RelationalAlgebraError as e:
            raise Skip(f"rejected at construction: {type(e).__name__}")
        except sqlmodel.OutsideModel as e:
            raise Skip(f"outside SQL model: {e}")
        except Exception as e:  # noqa: BLE001
            return [("processed tree compiles", False, {"exc": f"{type(e).__name__}: {e}"[:160]})]
        info.setdefault("tree", str(out))
        info.setdefault("sql", str(ex)[:300])
        if "ref" not in cache:
            cache["ref"] = sem_seq(prog, env, prefer="r")
        ref = cache["ref"]
        if ref.ordered and ref.det and _trailing_ok(prog):
            if not got.ordered:
                # no outer ORDER BY (sort > slice > deduplicate): SQL promises no order, which is neither agreement nor a
                # counterexample (DESIGN 3/C11); the rows themselves are still decided
                info["unspecified"] = True
                return [("rows (multiset; order unspecified by SQL)", relmodel.mset_eq(relmodel.unordered(got), relmodel.unordered(ref)), {})]
            return [("rows in order (processed tree)", relmodel.seq_eq(got, ref), {})]
        return [("rows of the windows (processed tree, multiset)", relmodel.mset_eq(relmodel.unordered(got), relmodel.unordered(ref)), {})]

    res = explore(h, max_paths=600, wall_s=150 if tier == "quick" else 900)
    out = res.as_dict()
    out["shape"] = "processed: " + fmt(prog)
    out["sample"] = {"program (compiled after Processor.process)": fmt(prog), "processed tree": info.get("tree"), "sql": info.get("sql"),
                     "rows in the transferred leaf": shape["n"], "paths": res.paths, "kind": "processed"}
    vios = []
    for cx in res.cex[:1]:
        m = cx["model"]
        bind = templates.bind_concrete(shape["params"], m)
        fails, symptom, detail = processed_check(shape, m, bind)
        if not fails:
            out["status"] = "harness-error"
            out["detail"] = f"counterexample does not reproduce: processed {fmt(prog)} {bind} [{cx['label']}] {cx['info']}"
            return out
        vios.append({"site": f"processed:{'>'.join(ops_of(prog))}/{symptom}", "summary": f"processed {fmt(prog)} bind={bind}: {symptom} {detail}",
                     "replay": {"processed": True, "shape": {"prog": to_jsonable(prog), "n": shape["n"]}, "model": {k: v for k, v in m.items() if k.startswith("P.")},
                                "bind": bind, "symptom": symptom}})
    if vios:
        out["status"], out["violations"] = VIOLATION, vios
    elif res.inconclusive or not res.complete:
        out["status"], out["detail"] = INCONCLUSIVE, "; ".join(res.notes)[:100]
    elif res.skipped and not res.obligations:
        out["status"], out["detail"] = UNDECIDED, res.skipped
    elif info.get("unspecified"):
        out["status"], out["detail"] = UNDECIDED, "order unspecified by SQL (no outer ORDER BY); rows agree as a multiset"
    else:
        out["status"] = HOLDS
    return out


def processed_check(shape, model, bind):
    """The same pipeline with ordinary ints (the SQL side is the SMT model on ground tables, validated against SQLite by the
    other families of this check); the Processor, the factories and the compiler are the real code."""
    from lsst.daf.relation import RelationalAlgebraError

    prog = shape["prog"]
    env, rows = _processed_env(None, shape, model)
    env.bind = dict(bind)
    try:
        tree, out, ex, got = _processed(prog, env)
    except RelationalAlgebraError:
        return False, "rejected", None
    except Exception as e:  # noqa: BLE001
        return True, f"processed-tree-fails:{type(e).__name__}", str(e)[:140]
    if not sqlprogs.determinate_env(prog, env):
        return False, "indeterminate", None
    exp = pyeval(prog, {"P": rows}, bind, env.tags, prefer="r")
    obs = sqlprogs.model_rows(got)
    if _trailing_ok(prog):
        if not got.ordered:
            if common.canon(obs) != common.canon(exp):
                return True, "rows-differ", {"tree": str(out), "expected": exp, "observed": obs, "sql": str(ex)[:200]}
            return False, "order-unspecified", None
        if obs != exp:
            return True, "order-differs" if common.canon(obs) == common.canon(exp) else "rows-differ", {"tree": str(out), "expected": exp, "observed": obs, "sql": str(ex)[:200]}
    elif common.canon(obs) != common.canon(exp):
        return True, "rows-differ", {"tree": str(out), "expected": exp, "observed": obs, "sql": str(ex)[:200]}
    return False, "", None


def concrete_check(prog, rows, bind):
    """Real compile + real SQLite under both scan orders vs the plain list evaluator (ordered)."""
    from lsst.daf.relation import RelationalAlgebraError

    env0 = sqlprogs.concrete_env(prog, bind)
    must_refuse = _must_refuse(prog)
    try:  # refusals do not depend on whether the program's result is determinate
        accepted = build(prog, env0)
        if must_refuse and "mat" not in ops_of(prog):
            return True, "buried-sort-accepted", {"tree": str(accepted)}
    except RelationalAlgebraError as e:
        if "row order" in str(e):
            return (False, "", None) if must_refuse else (True, "spurious-row-order-refusal", str(e)[:120])
    except Exception:  # noqa: BLE001 - other construction failures: see below / C08
        pass
    if not sqlprogs.determinate(prog, bind):
        return False, "indeterminate", None
    env0 = sqlprogs.concrete_env(prog, bind)
    for reverse in (False, True):
        try:
            rel, ex, got, env = sqlprogs.run_real_sql(prog, bind, rows, reverse=reverse)
        except RelationalAlgebraError as e:
            if "row order" in str(e):
                return (False, "", None) if must_refuse else (True, "spurious-row-order-refusal", str(e)[:120])
            if must_refuse and "Cannot persist materialization" in str(e):
                return True, "buried-sort-accepted", "materialization of a sorted, unsliced relation was accepted"
            return False, f"raises:{type(e).__name__}", str(e)[:120]
        except Exception as e:  # noqa: BLE001
            if must_refuse and "Cannot persist materialization" in str(e):
                return True, "buried-sort-accepted", "materialization of a sorted, unsliced relation was accepted"
            if "no such table" in str(e):
                return True, "sql-reads-foreign-table", str(e)[:160]
            return False, f"raises:{type(e).__name__}", str(e)[:120]
        if must_refuse:
            return True, "buried-sort-accepted", {"tree": str(rel)}
        exp = pyeval(prog, rows, bind, env0.tags, prefer="r")
        if not _trailing_ok(prog):
            if "slice" in ops_of(prog) and "sort" in ops_of(prog) and common.canon(got) != common.canon(exp):
                return True, "rows-differ", {"tree": str(rel), "expected": exp, "observed": got, "reverse_unordered_selects": reverse, "sql": str(ex)[:200]}
            return False, "", None
        if got != exp:
            return True, "order-differs" if common.canon(got) == common.canon(exp) else "rows-differ", {
                "tree": str(rel), "expected": exp, "observed": got, "reverse_unordered_selects": reverse, "sql": str(ex)[:200]}
    return False, "", None


def replay(v):
    r = v["replay"]
    if r.get("processed"):
        shape = {"prog": from_jsonable(r["shape"]["prog"]), "n": r["shape"]["n"]}
        fails, symptom, detail = processed_check(shape, r["model"], r["bind"])
        return fails and symptom == r["symptom"], f"processed {fmt(shape['prog'])} bind={r['bind']}: {symptom} {detail}"
    prog = from_jsonable(r["prog"])
    fails, symptom, detail = concrete_check(prog, r["rows"], r["bind"])
    return fails and symptom == r["symptom"], f"{fmt(prog)} tables={r['rows']} bind={r['bind']}: {symptom} {detail}"


def describe(tier):
    return {
        "explanation": "Sequence-semantics translation validation: for SQL-engine programs whose trailing operations are a total sort "
                       "followed only by slices, projections and deduplications, the ordered row list of the SMT semantics of the real "
                       "compiled statement equals direct evaluation for all table contents within the slot bound and all slice "
                       "bounds/literals (z3).  Programs where a sort without slice is buried under a join, chain or materialization "
                       "must be refused with the row-order error on every path (and no program is refused spuriously).  Statements "
                       "without an outer ORDER BY are executed on SQLite under both reverse_unordered_selects settings (bucket "
                       "'order unspecified by SQL' unless an order difference is observed).",
        "bounds": {"slots per leaf": "3 unary / 2 binary (quick); 4 / 2 (thorough)", "programs": "all sort-containing programs of the C02 space "
                   "plus 30 buried-sort shapes", "slice bounds": "0..N+2"},
        "outside": ["programs whose sort is not total (order indeterminate)", "dialects other than SQLite"],
        "assumptions": ["sqlmodel ORDER BY/LIMIT/OFFSET/DISTINCT semantics (validated against SQLite on every decided program)"],
        "extra": {},
    }
