"""C09 - relations are persistent, hashable values; evaluation is side-effect free."""
from __future__ import annotations

import itertools

import z3

from .. import common, meprogs, relmodel, symproc, templates
from ..driver import HOLDS, INCONCLUSIVE, UNDECIDED, VIOLATION
from ..prog import Env, build, fmt, from_jsonable, to_jsonable
from ..relmodel import zand
from ..symx import Skip, explore, zint

PID = "C09"
LEVEL = "other"
N = 2
A_, B_, C_ = ("ref", "a"), ("ref", "b"), ("ref", "c")

FACTORY = {
    "calc d": lambda ch: ("calc", ch, "e", ("add", A_, B_)),
    "proj -b": lambda ch: ("proj", ch, ("a", "c")),
    "sel a>k": lambda ch: ("sel", ch, ("gt", A_, ("lit", "$k"))),
    "sel b in [a,k]": lambda ch: ("sel", ch, ("inseq", B_, (A_, ("lit", "$k")))),
    "sel a in range": lambda ch: ("sel", ch, ("inrange", A_, 0, 5, 2)),
    "calc n=-a": lambda ch: ("calc", ch, "z", ("neg", A_)),
    "sel -a<b": lambda ch: ("sel", ch, ("lt", ("neg", A_), B_)),
    "dedup": lambda ch: ("dedup", ch),
    "sort -b,a": lambda ch: ("sort", ch, ((B_, False), (A_, True))),
    "slice 0:1": lambda ch: ("slice", ch, 0, 1),
    "chain self": lambda ch: ("chain", ch, ch),
    "join Z": lambda ch: ("join", ch, ("leaf", "Z"), None),
    "join sel(Z)": lambda ch: ("join", ch, ("sel", ("leaf", "Z"), ("gt", ("ref", "d"), ("lit", "$k"))), None),
    "Z join this": lambda ch: ("join", ("leaf", "Z"), ch, None),
    "mat": lambda ch: ("mat", ch, "m%d" % (sum(map(ord, fmt(ch))) % 100000)),
    "to it2": lambda ch: ("xfer", ch, "it2"),
    "to sq": lambda ch: ("xfer", ch, "sq"),
    "sel @it1": lambda ch: ("sel", ch, ("gt", C_, ("lit", "$k")), ("it1", True, True, False)),
    "proj a @it1": lambda ch: ("proj", ch, ("a",), ("it1", True, False, False)),
}
EVAL = ("compile", "execute", "process", "diagnose")
QUICK_FACTORY = ("calc d", "calc n=-a", "sel -a<b", "proj -b", "sel a>k", "sel b in [a,k]", "dedup", "sort -b,a", "slice 0:1", "chain self", "join Z", "join sel(Z)",
                 "Z join this", "mat",
                 "to it2", "to sq", "sel @it1", "proj a @it1")


def shapes(tier, seed):
    k = 3
    fac = list(QUICK_FACTORY if tier == "quick" else FACTORY)
    menu = fac + list(EVAL)
    out = []
    for start in ("X", "S"):
        for L in range(1, k + 1):
            for hist in itertools.product(menu, repeat=L):
                if hist[0] in EVAL and L > 1 and hist[1] in EVAL:
                    continue
                if L == 3 and tier == "quick" and hist[0] in EVAL:
                    continue
                out.append((start, hist))
        if tier == "thorough":
            for hist in itertools.product(("sort -b,a", "sel b in [a,k]", "mat", "to sq", "to it2", "compile", "execute", "process"), repeat=4):
                out.append((start, hist))
    # a leaf whose payload is a lazy compound iterable (a ChainRowIterable over two row sequences, as a transfer hook may hand one
    # over): nothing an execution does may change what that payload yields
    cmenu = ("chain self", "sel a>k", "dedup", "sort -b,a", "slice 0:1", "calc d", "mat", "to it2", "execute", "process")
    for L in range(1, k + 1):
        for hist in itertools.product(cmenu, repeat=L):
            if "execute" in hist and (L < 3 or "chain self" in hist):
                out.append(("C", hist))
    size = 60
    return [{"items": out[i:i + size]} for i in range(0, len(out), size)]


def fingerprint(rel):
    from lsst.daf.relation import LeafRelation, Materialization, iteration, sql

    try:
        h = hash(rel)
    except TypeError as e:
        h = f"unhashable: {e}"
    pay = None
    p = rel.payload
    if isinstance(rel, LeafRelation):
        if isinstance(p, iteration.RowIterable) and hasattr(p, "rows"):
            rows = p.rows.values() if isinstance(p.rows, dict) else p.rows
            pay = [sorted((str(t), str(v)) for t, v in r.items()) for r in rows]
        elif isinstance(p, iteration.RowIterable):
            try:
                pay = [sorted((str(t), str(v)) for t, v in r.items()) for r in common.take(p)]  # reading a leaf payload is free of side effects
            except common.Runaway as e:
                pay = f"payload does not end: {e}"
        elif isinstance(p, sql.Payload):
            pay = (str(p.from_clause), [str(w) for w in p.where], sorted((str(k), str(v)) for k, v in p.columns_available.items()))
    op = getattr(rel, "operation", None)
    req = None
    if op is not None:
        try:
            req = sorted(str(c) for c in (op.columns_required if hasattr(op, "columns_required") else op.predicate.columns_required))
        except Exception:  # noqa: BLE001
            req = None
    return (repr(rel), str(rel), h, frozenset(rel.columns), rel.min_rows, rel.max_rows, pay,
            None if isinstance(rel, Materialization) else (p is None), list(rel.messages) if isinstance(rel, LeafRelation) else None, req)


def all_nodes(rel, acc=None, seen=None):
    from lsst.daf.relation import BinaryOperationRelation, MarkerRelation, UnaryOperationRelation

    acc = [] if acc is None else acc
    seen = set() if seen is None else seen
    if id(rel) in seen:
        return acc
    seen.add(id(rel))
    acc.append(rel)
    if isinstance(rel, UnaryOperationRelation):
        all_nodes(rel.target, acc, seen)
    elif isinstance(rel, BinaryOperationRelation):
        all_nodes(rel.lhs, acc, seen)
        all_nodes(rel.rhs, acc, seen)
    elif isinstance(rel, MarkerRelation):
        all_nodes(rel.target, acc, seen)
        if hasattr(rel, "skip_to"):
            all_nodes(rel.skip_to, acc, seen)
    return acc


def compiled_form(ex):
    c = ex.compile()
    return str(c), sorted((k, str(v)) for k, v in c.params.items())


def run_history(start, hist, ctx, valfn):
    """-> (problems, z3 obligations list of (label, cond))"""
    from lsst.daf.relation import ColumnError, Diagnostics, EngineError, RelationalAlgebraError, iteration, sql

    def mk():
        env = Env(symbolic=ctx is not None)
        env.share_subexpressions = True  # one library object per distinct sub-expression, as a caller who keeps `inner = -a` around has
        rows = [{c: valfn("X", c, i) for c in "abc"} for i in range(N)]
        env.add_iter_leaf("X", "abc", rows, engine="it1", messages=[])  # an (empty) list, as callers pass
        if start == "C":
            crows = [{env.tags[c]: valfn("C", c, i) for c in "abc"} for i in range(N)]
            cp = iteration.ChainRowIterable([iteration.RowSequence(crows[:1]), iteration.RowSequence(crows[1:])])
            env.add_iter_leaf("C", "abc", [{c: r[env.tags[c]] for c in "abc"} for r in crows], engine="it1", payload=cp, min_rows=0, max_rows=None)
        env.add_sql_leaf("S", "abc", N, table=valfn("S", None, None))
        env.add_sql_leaf("Z", "ad", 1, table=valfn("Z", None, None))
        env.bind = {"$k": valfn("$k", None, None)}
        return env

    env = mk()
    db = symproc.SymDB(env)
    log = []
    proc = symproc.make_processor(db, log)
    problems = []
    obs = []
    prog = ("leaf", start)
    memo = {}
    cur = build(prog, env, memo)
    pool = list(env.leaves.values())
    prints = {id(r): (r, fingerprint(r)) for r in pool}

    def remember(rel):
        for n in all_nodes(rel):
            if id(n) not in prints:
                prints[id(n)] = (n, fingerprint(n))

    def verify(after):
        for rid, (r, fp) in prints.items():
            now = fingerprint(r)
            if now != fp:
                which = [i for i, (x, y) in enumerate(zip(fp, now)) if x != y]
                names = ["repr", "str", "hash", "columns", "min_rows", "max_rows", "leaf payload content", "payload presence", "leaf messages",
                         "columns required by the node's operation"]
                problems.append(("earlier-relation-changed", f"after '{after}': {[names[i] for i in which]} of {fp[1]} changed"))
                prints[rid] = (r, now)
                return

    remember(cur)
    for act in hist:
        try:
            if act in FACTORY:
                node = FACTORY[act](prog)
                try:
                    new = build(node, env, memo)
                except (ColumnError, EngineError, RelationalAlgebraError):
                    verify(act)
                    continue
                prog, cur = node, new
                fp = fingerprint(cur)
                if isinstance(fp[2], str):
                    problems.append(("relation-not-hashable", f"{str(cur)}: {fp[2]}"))
                # the same sequence built twice gives equal relations with equal hashes
                twin = build(_fresh(prog), env, {})
                if not (twin == cur):
                    problems.append(("rebuilt-relation-not-equal", f"{cur} != {twin}"))
                elif not isinstance(fp[2], str) and hash(twin) != hash(cur):
                    problems.append(("rebuilt-relation-hash-differs", str(cur)))
                remember(cur)
                remember(twin)
            elif act == "compile":
                if isinstance(cur.engine, sql.Engine):
                    try:
                        e1 = compiled_form(cur.engine.to_executable(cur))
                        e2 = compiled_form(cur.engine.to_executable(cur))
                    except (EngineError, NotImplementedError, KeyError):
                        e1 = e2 = None  # compile failures are C08's subject
                    if e1 != e2:
                        problems.append(("compiling-twice-differs", f"{e1} vs {e2}"[:200]))
            elif act == "execute":
                if isinstance(cur.engine, iteration.Engine):
                    try:
                        r1 = [dict(r) for r in common.take(cur.engine.execute(cur))]
                        r2 = [dict(r) for r in common.take(cur.engine.execute(cur))]
                    except EngineError:
                        r1 = r2 = None  # unprocessed cross-engine tree / joins
                    if r1 is not None:
                        if len(r1) != len(r2) or any(set(x) != set(y) for x, y in zip(r1, r2)):
                            problems.append(("executing-twice-differs", f"{len(r1)} vs {len(r2)} rows"))
                        else:
                            obs.append(("executing twice gives equal rows", zand(zint(x[t]) == zint(y[t]) for x, y in zip(r1, r2) for t in x)))
            elif act == "process":
                try:
                    out = proc.process(cur)
                    remember(out)
                except (EngineError, NotImplementedError, KeyError):
                    pass
            elif act == "diagnose":
                reports = []
                for executor in (None, lambda r: True, lambda r: False, lambda r: False, None):
                    d = Diagnostics.run(cur, executor)
                    reports.append((d.is_doomed, list(d.messages)))
                if reports[0] != reports[4] or reports[2] != reports[3]:
                    problems.append(("diagnosing-twice-differs", f"{reports[0]} vs {reports[4]} / {reports[2]} vs {reports[3]}"[:300]))
        except Skip:
            raise
        except Exception as e:  # noqa: BLE001
            from ..sqlmodel import OutsideModel, SqlInvalid
            if isinstance(e, (OutsideModel, SqlInvalid)):
                pass
            else:
                problems.append(("action-raises", f"{act}: {type(e).__name__}: {e}"[:160]))
                break
        verify(act)
    return problems, obs


def _fresh(node):
    """Structural copy of a program (so that build() does not reuse memoised relations)."""
    if isinstance(node, tuple):
        return tuple(_fresh(x) for x in node)
    return node


def run_shape(shape, tier):
    tot = {"paths": 0, "queries": 0, "solver_s": 0.0, "obligations": 0, "discharged": 0, "inconclusive": 0}
    functions = set()
    vios = []
    sample = None
    for start, hist in shape["items"]:
        def h(ctx, start=start, hist=hist):
            def valfn(name, c, i):
                if name in ("S", "Z"):
                    tab, _ = relmodel.leaf_symbolic(name, "abc" if name == "S" else "ad", N if name == "S" else 1, ordered=False)
                    common.register_table(ctx, tab)
                    return tab
                if name == "$k":
                    return ctx.int("k")
                return ctx.int(f"{name}.{c}{i}")

            problems, obs = run_history(start, hist, ctx, valfn)
            return [(sym, False, {"detail": det}) for sym, det in problems[:3]] + obs + [("history completed", True, {})]

        res = explore(h, max_paths=1500, wall_s=90, profile=(sample is None))
        for k in tot:
            tot[k] += getattr(res, k)
        functions |= res.functions
        if sample is None and res.paths > 1:
            sample = {"start": start, "history": list(hist), "paths": res.paths}
        for cx in res.cex[:1]:
            fails, symptom, detail = concrete_check(start, hist, cx["model"])
            if not fails:
                return {"status": "harness-error", "detail": f"counterexample does not reproduce: {start} {hist} {cx['label']} {cx['info']}", **tot}
            mh = _min_history(start, hist, cx["model"], symptom)
            vios.append({"site": f"{'>'.join(mh)}/{symptom}", "summary": f"start={start} history={list(mh)}: {symptom} {concrete_check(start, mh, cx['model'])[2]}",
                         "replay": {"start": start, "history": list(mh), "model": cx["model"], "symptom": symptom}})
    out = dict(tot)
    out["functions"] = sorted(functions)
    out["shape"] = f"{shape['items'][0][0]}: {list(shape['items'][0][1])} (+{len(shape['items']) - 1} more)"
    out["sample"] = sample or {"start": shape["items"][0][0], "history": list(shape["items"][0][1])}
    if vios:
        out["status"], out["violations"] = VIOLATION, vios
    elif tot["inconclusive"]:
        out["status"], out["detail"] = INCONCLUSIVE, "budget"
    else:
        out["status"] = HOLDS
    return out


def _min_history(start, hist, model, symptom):
    hist = list(hist)
    changed = True
    while changed and len(hist) > 1:
        changed = False
        for i in range(len(hist)):
            cand = hist[:i] + hist[i + 1:]
            if concrete_check(start, cand, model)[1] == symptom:
                hist, changed = cand, True
                break
    return tuple(hist)


def concrete_check(start, hist, model):
    from ..sqlprogs import concrete_tab

    def valfn(name, c, i):
        if name == "S":
            return concrete_tab(common.rows_from_model(model, "S", "abc", N), "abc")
        if name == "Z":
            return concrete_tab(common.rows_from_model(model, "Z", "ad", 1), "ad")
        if name == "$k":
            return int(model.get("k", 0))
        return int(model.get(f"{name}.{c}{i}", 0))

    from ..symx import PathTimeout, time_limit
    try:
        with time_limit(20):
            problems, obs = run_history(start, hist, None, valfn)
    except PathTimeout:
        return True, "does-not-terminate", "the history did not come back within 20 s with ordinary values"
    except Exception as e:  # noqa: BLE001
        return True, f"raises:{type(e).__name__}", str(e)[:140]
    if problems:
        return True, problems[0][0], problems[0][1]
    for label, cond in obs:
        if not z3.is_true(z3.simplify(cond)):
            return True, "executing-twice-differs", label
    return False, "", None


def replay(v):
    r = v["replay"]
    fails, symptom, detail = concrete_check(r["start"], tuple(r["history"]), r["model"])
    return fails and symptom == r["symptom"], f"start={r['start']} history={r['history']}: {symptom} {detail}"


def describe(tier):
    return {
        "explanation": "Every history of up to 3 actions (13-14 factory calls incl. sorts, container predicates, joins, chains, "
                       "materialization, transfers, a preferred-engine insertion; to_executable, execute, Processor.process, "
                       "Diagnostics.run) from an iteration leaf and a SQL leaf runs under symx with symbolic row values.  After every step "
                       "deep fingerprints (repr, str, hash, columns, row bounds, leaf payload content, payload presence) of every "
                       "relation seen so far - all nodes of all trees - must be unchanged (a Materialization gaining its payload is the "
                       "one permitted change); every produced relation must hash; rebuilding the same sequence must give an equal "
                       "relation with an equal hash; compiling twice must give equal SQL text and parameters; z3 decides that executing "
                       "twice yields equal rows.",
        "bounds": {"history length": 3 if tier == "quick" else "3 exhaustive + 4 over 8 actions", "rows per leaf": N},
        "outside": ["longer histories", "here the solver decides path feasibility, value-dependent branches and row equality; the strength "
                    "is bounded-exhaustive coverage of histories"],
        "assumptions": [],
        "rule": "one evaluation = one batch of 60 histories, each explored on all paths",
    }
