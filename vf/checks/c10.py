"""C10 - payloads are write-once and materializations are computed at most once."""
from __future__ import annotations

import itertools

import z3

from .. import common, meprogs, relmodel, symproc, templates
from ..driver import HOLDS, INCONCLUSIVE, UNDECIDED, VIOLATION
from ..prog import Env, build, fmt, from_jsonable, sem_seq, to_jsonable
from ..symx import Skip, explore, zint

PID = "C10"
LEVEL = "other"
N = 2
A_, B_ = ("ref", "a"), ("ref", "b")


def trees():
    """name -> (M program, {tree name: program over M}, needs processor)"""
    X, S = ("leaf", "X"), ("leaf", "S")
    out = {}
    m1 = ("mat", ("sel", X, ("gt", A_, ("lit", "$k"))), "m1")
    out["iter"] = (m1, {"A": ("sort", m1, ((B_, False), (A_, True))), "B": ("dedup", ("proj", m1, ("a",)))}, False)
    m2 = ("mat", ("xfer", ("sel", X, ("gt", A_, ("lit", "$k"))), "it2"), "m2")
    out["iter-xfer"] = (m2, {"A": ("sel", m2, ("lt", A_, B_)), "B": ("xfer", ("dedup", m2), "it1")}, False)
    m3 = ("mat", ("xfer", ("sel", S, ("gt", A_, ("lit", "$k"))), "it1"), "m3")
    out["sql-source"] = (m3, {"A": ("sort", m3, ((A_, True), (B_, True))), "B": ("proj", m3, ("a", "b"))}, True)
    m4 = ("mat", ("xfer", X, "sq"), "m4")
    out["sql-mat"] = (m4, {"A": ("sel", m4, ("gt", A_, ("lit", "$k"))), "B": ("xfer", ("proj", m4, ("a",)), "it1")}, True)
    m5in = ("mat", ("dedup", X), "m5a")
    m5 = ("mat", ("sel", m5in, ("gt", A_, ("lit", "$k"))), "m5")
    out["nested"] = (m5, {"A": ("proj", m5, ("a", "c")), "B": ("sort", m5in, ((A_, False),))}, False)
    D0 = ("leaf", "0i")
    selx = ("sel", X, ("gt", A_, ("lit", "$k")))
    m7 = ("mat", ("chain", D0, selx), "m7")
    out["chain-doomed-lhs"] = (m7, {"A": ("sort", m7, ((A_, True),)), "B": ("xfer", ("proj", m7, ("a",)), "it2")}, True)
    m8 = ("mat", ("chain", selx, D0), "m8")
    out["chain-doomed-rhs"] = (m8, {"A": ("dedup", m8), "B": ("sel", m8, ("lt", A_, B_))}, True)
    m9 = ("mat", ("xfer", selx, "it2"), "m9")
    out["mat-under-transfers"] = (m9, {"A": ("xfer", ("xfer", m9, "sq"), "it1"), "B": ("xfer", ("sel", ("xfer", m9, "sq"), ("lt", A_, B_)), "it1")}, True)
    # a user-defined marker (documented extension point) between the transfer and the materialization
    m10 = ("mat", ("tag", ("xfer", selx, "it2")), "m10")
    out["user-marker"] = (m10, {"A": ("sort", m10, ((A_, False), (B_, True))), "B": ("xfer", ("dedup", m10), "it1")}, True)
    # ... and two of them stacked, in an iteration engine and (where the engine adds SELECT markers of its own) in the SQL engine
    m13 = ("mat", ("tag", ("tag", ("xfer", selx, "it2"))), "m13")
    out["user-markers-stacked"] = (m13, {"A": ("sort", m13, ((A_, False), (B_, True))), "B": ("xfer", ("dedup", m13), "it1")}, True)
    m14 = ("mat", ("tag", ("xfer", selx, "sq")), "m14")
    out["user-marker-sql"] = (m14, {"A": ("sel", m14, ("lt", A_, B_)), "B": ("xfer", ("proj", m14, ("a",)), "it1")}, True)
    # a user-defined marker that already carries a lazy payload of its owner's, then materialized
    m15 = ("mat", ("tagp", selx), "m15")
    out["user-marker-with-payload"] = (m15, {"A": ("sort", m15, ((A_, False), (B_, True))), "B": ("xfer", ("dedup", m15), "it2")}, True)
    # a materialization requested on a tree that an earlier process() returned: its transfer already carries a payload, and that
    # payload is a lazy iterable because no materialization followed the transfer then (the hook contract allows that)
    m11 = ("mat", ("proc", ("xfer", selx, "it2")), "m11")
    out["mat-of-processed"] = (m11, {"A": ("sort", m11, ((A_, False), (B_, True))), "B": ("xfer", ("dedup", m11), "it1")}, True)
    # a statically empty materialization (zero-length window) over a transfer that is not: the transfer upstream still runs when the
    # tree is processed, so the node must end up with a payload or every later process() runs it again
    m12 = ("mat", ("slice", ("xfer", selx, "it2"), 0, 0), "m12")
    out["trivial-mat-over-transfer"] = (m12, {"A": ("sort", m12, ((A_, False), (B_, True))), "B": ("xfer", ("dedup", m12), "it1")}, True)
    m6 = ("mat", ("proj", X, ("a", "b")), "m6")
    out["chain-shared"] = (m6, {"A": ("chain", m6, m6), "B": ("chain", ("sel", m6, ("gt", A_, ("lit", "$k"))), m6)}, False)
    return out


ACTIONS = ("exec A", "exec B", "exec M", "proc A", "proc B", "attach M", "attach A", "attach leaf", "attach M again", "attach bare")


def shapes(tier, seed):
    k = 3 if tier == "quick" else 4
    out = []
    for tname, (m, ts, needs_proc) in trees().items():
        acts = [a for a in ACTIONS if needs_proc or True]
        if needs_proc:
            acts = [a for a in acts if a not in ("exec M",)]
        deep = tname in ("iter", "iter-xfer", "sql-source", "sql-mat", "nested", "chain-shared", "mat-of-processed", "trivial-mat-over-transfer")
        for L in range(1, (k if deep else 3) + 1):  # length-4 histories (thorough) for eight of the families
            for hist in itertools.product(acts, repeat=L):
                if needs_proc and not any(a.startswith("proc") or a.startswith("attach") for a in hist):
                    continue
                out.append((tname, hist))
    size = 30
    return [{"items": out[i:i + size]} for i in range(0, len(out), size)]


class Counting:
    pass


def _counting_seq(rows):
    from lsst.daf.relation import iteration

    class CountingSeq(iteration.RowSequence):
        def __init__(self, rows):
            super().__init__(rows)
            self.starts = 0

        def __iter__(self):
            self.starts += 1
            return iter(self.rows)

    return CountingSeq(rows)


def run_history(tname, hist, ctx, valfn, bind=None):
    """Execute one history on fresh trees.  Returns (problems, obligations-as-(label, real rows, oracle program, oracle env))."""
    from lsst.daf.relation import LeafRelation, MarkerRelation, iteration, sql
    from ..sqlprogs import concrete_tab

    m_prog, tprogs, needs_proc = trees()[tname]
    env = Env(symbolic=ctx is not None)
    rows = [{c: valfn("X", c, i) for c in "abc"} for i in range(N)]
    payload = _counting_seq([{env.tags[c]: r[c] for c in "abc"} for r in rows])
    env.add_iter_leaf("X", "abc", rows, engine="it1", payload=payload)
    stab = valfn("S", None, None)
    env.add_sql_leaf("S", "abc", N, table=stab)
    env.add_special_leaf("0i", "doomed", "it1", ("a", "b", "c"))
    env.bind = {"$k": valfn("$k", None, None)} if bind is None else dict(bind)
    memo = {}
    M = build(m_prog, env, memo)
    T = {k: build(p, env, memo) for k, p in tprogs.items()}
    from lsst.daf.relation import Materialization

    def find_mat(rel, name):
        from lsst.daf.relation import BinaryOperationRelation, UnaryOperationRelation
        todo = [rel]
        while todo:
            r = todo.pop()
            if isinstance(r, Materialization) and r.name == name:
                return r
            if isinstance(r, UnaryOperationRelation):
                todo.append(r.target)
            elif isinstance(r, BinaryOperationRelation):
                todo += [r.lhs, r.rhs]
            elif isinstance(r, MarkerRelation):
                todo.append(r.target)
        return None

    mnode = find_mat(M, m_prog[2])
    early = [("materialization-not-part-of-the-tree-built-on-it", f"tree {k} = {T[k]} does not contain {mnode}")
             for k in sorted(T) if repr(m_prog) in repr(tprogs[k]) and find_mat(T[k], m_prog[2]) is not mnode]
    db = symproc.SymDB(env)
    log = []
    proc = symproc.make_processor(db, log)
    # payload offered by attach actions: rows P (distinct symbolic values)
    mcols = sorted(t.qualified_name for t in mnode.columns)
    # (a payload handed to attach_payload has to respect the node's static row bounds: none for a statically empty node)
    prow = [{c: valfn("P", c, i) for c in mcols} for i in range(0 if mnode.max_rows == 0 else 1)]
    if isinstance(mnode.engine, sql.Engine):
        ptab = relmodel.Tab([relmodel.Slot(z3.BoolVal(True), None, {c: zint(r[c]) for c in mcols}) for r in prow], mcols, False)
        P = db.table_payload("Ptable", [env.tags[c] for c in mcols], ptab)
    else:
        P = iteration.RowSequence([{env.tags[c]: r[c] for c in mcols} for r in prow])
        ptab = relmodel.leaf_concrete([{c: zint(r[c]) for c in mcols} for r in prow], mcols)
    problems = list(early[:1])
    bare = []
    checks = []
    m_state = {"attached": False}
    payload_seen = {}

    def note_payloads():
        for name, node in (("M", mnode), ("A", T["A"]), ("B", T["B"])):
            if isinstance(node, MarkerRelation) or node.payload is not None:
                p = node.payload
                if name in payload_seen and payload_seen[name] is not None and p is not payload_seen[name]:
                    problems.append(("payload-replaced", f"payload of {name} changed identity"))
                if p is not None:
                    payload_seen.setdefault(name, p)
                    if payload_seen[name] is None:
                        payload_seen[name] = p

    def oracle_env():
        env2 = Env(symbolic=False)
        env2.tables = dict(env.tables)
        env2.bind = env.bind
        env2.tags = env.tags
        return env2

    def oracle(tree_name):
        """Oracle program for a tree: M replaced by a leaf bound to the attached payload's rows if an attach succeeded first."""
        prog = m_prog if tree_name == "M" else tprogs[tree_name]
        env2 = oracle_env()
        if m_state["attached"]:
            env2.tables["Mtab"] = ptab

            def sub(n):
                if n is m_prog or n == m_prog:
                    return ("leaf", "Mtab")
                return tuple(sub(x) if isinstance(x, tuple) else x for x in n)

            prog = sub(prog)
        return prog, env2

    for act in hist:
        kind, _, target = act.partition(" ")
        note_payloads()
        if kind in ("exec", "proc") and target in m_state.get("other", ()):
            continue  # the harness attached a foreign payload to this tree's root marker: its later rows are that payload's business
        try:
            if kind == "exec":
                rel = M if target == "M" else T[target]
                if rel.engine not in (env.engines["it1"], env.engines["it2"]):
                    continue
                try:
                    got = [dict(r) for r in rel.engine.execute(rel)]
                except Exception as e:  # noqa: BLE001
                    from lsst.daf.relation import EngineError
                    if needs_proc and isinstance(e, EngineError):
                        continue  # unprocessed cross-engine tree: documented refusal
                    raise
                checks.append((act, got, oracle(target)))
            elif kind == "proc":
                out = proc.process(T[target])
                got = symproc.evaluate(out, db)
                checks.append((act, got, oracle(target)))
            elif kind == "attach":
                if target == "bare":
                    # a leaf that was created without a payload (e.g. a doomed / identity leaf of an engine using the base-class hooks)
                    bare.append(LeafRelation(env.engines["it1"], frozenset(env.tags[c] for c in "ab"), None, name="bare", min_rows=0, max_rows=None))
                node = {"M": mnode, "A": T["A"], "leaf": env.leaves["X"], "M again": mnode, "bare": bare[-1] if bare else None}[target]
                expect_ok = isinstance(node, MarkerRelation) and node.payload is None
                try:
                    node.attach_payload(P)
                    ok = True
                except TypeError:
                    ok = False
                if ok != expect_ok:
                    problems.append(("attach-contract", f"attach_payload on {type(node).__name__} with payload "
                                                        f"{'present' if not expect_ok and isinstance(node, MarkerRelation) else 'absent'}: "
                                                        f"{'accepted' if ok else 'rejected'}"))
                if ok and node is mnode:
                    m_state["attached"] = True
                if ok and node is not mnode and isinstance(node, MarkerRelation):
                    m_state.setdefault("other", []).append(target)
        except Skip:
            raise
        except Exception as e:  # noqa: BLE001
            problems.append(("action-raises", f"{act}: {type(e).__name__}: {e}"[:160]))
            break
    note_payloads()
    # at-most-once evaluation of the materialization's upstream
    n_mat = sum(1 for e in log if e[0] == "materialize" and e[2] == m_prog[2])
    from lsst.daf.relation import Transfer
    feed = mnode.target
    while isinstance(feed, MarkerRelation) and not isinstance(feed, Transfer):  # SQL Select wrappers
        feed = feed.target
    feed_src = str(feed.target) if isinstance(feed, Transfer) else None
    n_xfer = sum(1 for e in log if e[0] == "transfer" and feed_src is not None and str(e[1]) == feed_src)
    if n_mat > 1:
        problems.append(("materialize-hook-twice", f"materialize hook ran {n_mat} times for {m_prog[2]}"))
    if n_xfer > 1:
        problems.append(("upstream-transfer-twice", f"the transfer feeding {m_prog[2]} ran {n_xfer} times"))
    if "X" in repr(m_prog) and payload.starts > 1 and tname != "nested":
        problems.append(("upstream-evaluated-twice", f"leaf below {m_prog[2]} was iterated {payload.starts} times"))
    if tname == "nested" and payload.starts > 1:
        problems.append(("upstream-evaluated-twice", f"leaf below the inner materialization was iterated {payload.starts} times"))
    return problems, checks, m_state


def _feeds(source, m_prog):
    """The hook source is the direct upstream of the materialization's transfer."""
    inner = m_prog[1]
    return inner[0] == "xfer" and str(source).replace("select(", "").rstrip(")").startswith(("σ", "X", "S", "select"))


def run_shape(shape, tier):
    tot = {"paths": 0, "queries": 0, "solver_s": 0.0, "obligations": 0, "discharged": 0, "inconclusive": 0}
    functions = set()
    vios = []
    sample = None
    for tname, hist in shape["items"]:
        def h(ctx, tname=tname, hist=hist):
            def valfn(name, c, i):
                if name == "S":
                    tab, _ = relmodel.leaf_symbolic("S", "abc", N, ordered=False)
                    common.register_table(ctx, tab)
                    return tab
                if name == "$k":
                    return ctx.int("k")
                return ctx.int(f"{name}.{c}{i}")

            problems, checks, st = run_history(tname, hist, ctx, valfn)
            obs = [(sym, False, {"detail": det}) for sym, det in problems[:3]]
            if "other" in st:
                return obs + [("history consistent", True, {})]  # a root marker got a foreign payload: later rows follow that payload
            for act, got, (prog, env2) in checks:
                ref = sem_seq(prog, env2)
                if isinstance(got, list):
                    gz = [{t.qualified_name: zint(v) for t, v in r.items()} for r in got]
                    ordered = ref.ordered and "S" not in repr(prog) and "sq" not in repr(prog)
                    vc = relmodel.seq_equals_list(ref, gz) if ordered else relmodel.mset_equals_list(relmodel.unordered(ref), gz)
                else:
                    vc = relmodel.mset_eq(relmodel.unordered(got), relmodel.unordered(ref))
                obs.append((f"rows of '{act}' (cached rows afterwards)", vc, {"history": list(hist)}))
            obs.append(("history consistent", True, {}))
            return obs

        res = explore(h, max_paths=2000, wall_s=90, profile=(sample is None))
        for k in tot:
            tot[k] += getattr(res, k)
        functions |= res.functions
        if sample is None and res.obligations > 1:
            sample = {"trees": tname, "history": list(hist), "paths": res.paths}
        for cx in res.cex[:1]:
            fails, symptom, detail = concrete_check(tname, hist, cx["model"])
            if not fails:
                return {"status": "harness-error", "detail": f"counterexample does not reproduce: {tname} {hist} {cx['label']} {cx['info']}", **tot}
            mh = _min_history(tname, hist, cx["model"], symptom)
            vios.append({"site": f"{tname}:{'>'.join(mh)}/{symptom}", "summary": f"trees={tname} history={list(mh)}: {symptom} {concrete_check(tname, mh, cx['model'])[2]}",
                         "replay": {"trees": tname, "history": list(mh), "model": cx["model"], "symptom": symptom}})
    out = dict(tot)
    out["functions"] = sorted(functions)
    out["shape"] = f"{shape['items'][0][0]}: {list(shape['items'][0][1])} (+{len(shape['items']) - 1} more)"
    out["sample"] = sample or {"trees": shape["items"][0][0], "history": list(shape["items"][0][1])}
    if vios:
        out["status"], out["violations"] = VIOLATION, vios
    elif tot["inconclusive"]:
        out["status"], out["detail"] = INCONCLUSIVE, "budget"
    else:
        out["status"] = HOLDS
    return out


def _min_history(tname, hist, model, symptom):
    hist = list(hist)
    changed = True
    while changed and len(hist) > 1:
        changed = False
        for i in range(len(hist)):
            cand = hist[:i] + hist[i + 1:]
            if concrete_check(tname, cand, model)[1] == symptom:
                hist, changed = cand, True
                break
    return tuple(hist)


def concrete_check(tname, hist, model):
    from ..sqlprogs import concrete_tab, model_rows

    srows = common.rows_from_model(model, "S", "abc", N)

    def valfn(name, c, i):
        if name == "S":
            return concrete_tab(srows, "abc")
        if name == "$k":
            return int(model.get("k", 0))
        return int(model.get(f"{name}.{c}{i}", 0))

    try:
        problems, checks, st = run_history(tname, hist, None, valfn)
    except Exception as e:  # noqa: BLE001
        return True, f"raises:{type(e).__name__}", str(e)[:140]
    if problems:
        return True, problems[0][0], problems[0][1]
    if "other" in st:
        return False, "", None
    for act, got, (prog, env2) in checks:
        ref = sem_seq(prog, env2)
        exp = model_rows(relmodel.index_order(ref) if not ref.ordered else ref)
        rows = [{t.qualified_name: v for t, v in r.items()} for r in got] if isinstance(got, list) else model_rows(got)
        ordered = ref.ordered and "S" not in repr(prog) and "sq" not in repr(prog)
        same = (rows == exp) if ordered else (common.canon(rows) == common.canon(exp))
        if not same:
            return True, "rows-differ-from-cached", {"action": act, "expected": exp, "observed": rows}
    return False, "", None


def replay(v):
    r = v["replay"]
    fails, symptom, detail = concrete_check(r["trees"], tuple(r["history"]), r["model"])
    return fails and symptom == r["symptom"], f"trees={r['trees']} history={r['history']}: {symptom} {detail}"


def describe(tier):
    k = 3 if tier == "quick" else 4
    return {
        "explanation": "Six families of trees that share a materialization node (iteration only, iteration-to-iteration transfer, SQL source, "
                       "materialization inside the SQL engine, nested materializations, a chain using the node twice) are driven through "
                       f"every history of up to {k} actions over {{execute A/B/M, Processor.process A/B, attach_payload on the materialization / "
                       "a non-marker root / a leaf / again}} with symbolic row values and literals.  Path assertions: attach succeeds iff the "
                       "node is a marker without payload (TypeError otherwise); a non-None payload is never replaced (identity); the leaf "
                       "below the materialization is iterated at most once and the transfer / materialize hooks run at most once over the "
                       "whole history.  z3 decides that every execution returns the rows of direct evaluation - or of the attached payload "
                       "when an attach preceded the first evaluation (cached rows).",
        "bounds": {"history length": f"{k} (3 for the marker / chain-pruning families)", "rows per leaf": N, "tree families": len(trees())},
        "outside": ["longer histories", "concurrent histories"],
        "assumptions": ["sqlmodel semantics for the SQL-side evaluations"],
        "rule": "one evaluation = one batch of 30 histories, each explored on all paths",
    }
