"""C16 - Diagnostics never dooms a non-empty relation; exact with a truthful executor."""
from __future__ import annotations

import z3

from .. import common, relmodel, templates
from ..driver import HOLDS, INCONCLUSIVE, UNDECIDED, VIOLATION
from ..prog import Env, add_abstract_leaf, build, fmt, from_jsonable, ops_of, pyeval, pytree, sem_seq, sem_tree, to_jsonable
from ..symx import Skip, SymBool, explore
from . import c06

PID = "C16"
LEVEL = "other"
LEAVES, SPECIAL = {**c06.LEAVES, "X2": ("a", "b", "c")}, c06.SPECIAL  # X2: another leaf object that *equals* X (same name, other rows)


def _nested(tier):
    X, Y, Z, D0 = ("leaf", "X"), ("leaf", "Y"), ("leaf", "Z"), ("leaf", "0")
    K = ("gt", ("ref", "a"), ("lit", "$k1"))
    progs = [("join", ("chain", X, D0), Z, None), ("join", Z, ("chain", D0, X), None), ("join", ("chain", X, Y), Z, None),
             ("join", ("chain", ("sel", X, K), D0), Z, None), ("sel", ("join", ("chain", X, D0), Z, None), K),
             ("chain", ("chain", X, D0), Y), ("join", ("chain", D0, D0), Z, None), ("dedup", ("join", ("chain", X, D0), Z, None)),
             ("join", ("chain", X, D0), ("leaf", "I"), None), ("join", ("sel", ("chain", X, D0), K), Z, ("plit", False))]
    # the "is there any row" idiom: zero columns, at most one row, possibly none
    EX = ("dedup", ("proj", ("sel", Y, K), ()))
    progs += [("join", X, EX, None), ("join", EX, X, None), ("join", X, ("dedup", ("proj", Y, ())), None), ("dedup", ("proj", ("sel", X, K), ())),
              ("chain", ("dedup", ("proj", ("sel", X, K), ())), ("proj", D0, ())), ("join", ("sel", X, K), EX, None)]
    # one relation object in two places of the tree: a verdict about one occurrence must not leak to the other
    for doomed_side in (("slice", X, 0, 0), ("sel", X, ("plit", False)), ("sel", X, K), ("slice", X, "$k1s", "$k1s")):
        progs += [("chain", doomed_side, X), ("chain", X, doomed_side), ("chain", ("chain", doomed_side, X), Y), ("dedup", ("chain", doomed_side, X))]
    # two leaves that compare equal (same engine, name and columns) with different contents: a verdict about one is not one about the other
    X2 = ("leaf", "X2")
    progs += [("chain", X, X2), ("chain", X2, X), ("chain", ("sel", X, K), X2), ("dedup", ("chain", X2, ("sel", X, K))), ("chain", ("slice", X, 0, 1), ("slice", X2, 0, 1)),
              ("chain", ("chain", X2, D0), X)]
    G = ("gt", ("ref", "b"), ("lit", "$k1"))
    F, T = ("plit", False), ("plit", True)
    preds = [("or", G, F), ("or", G, ("not", T)), ("and", ("or", G, F), K), ("not", ("or", G, F)), ("or", F, G), ("and", K, ("or", F, F)),
             ("not", ("and", K, T)), ("or", ("and", K, F), G), ("and", ("not", F), K), ("or", K, ("and", T, F))]
    L = lambda v: ("lit", v)  # noqa: E731
    preds += [("gt", L(1), L(2)), ("lt", L("$k1"), L(0)), ("inrange", L(2), 5, 9, 1), ("not", ("le", L(1), L(2))),
              ("and", ("gt", L(1), L(2)), K), ("eq", L(3), L(3))]
    # container predicates whose folding could look at the container only: ascending / descending / empty / unaligned ranges,
    # empty and literal-only sequences
    RA = ("ref", "a")
    for rng in ((5, 0, -1), (9, -1, -3), (-1, -8, -2), (0, 5, 2), (3, 3, 1), (5, 0, 1), (0, 5, -1), (2, 3, 7)):
        preds += [("inrange", RA, *rng), ("not", ("inrange", RA, *rng)), ("and", K, ("inrange", ("add", RA, ("ref", "b")), *rng))]
    preds += [("inseq", RA, ()), ("not", ("inseq", RA, ())), ("inseq", RA, (L(1), L(2))), ("inseq", L(1), (L(1),)), ("or", ("inseq", RA, ()), G)]
    for pr in preds:
        progs += [("sel", X, pr), ("slice", ("sel", X, pr), 0, 1), ("chain", ("sel", X, pr), D0), ("join", X, Z, pr)]
    n = 2 if tier == "quick" else 3
    return [{"eng": ("it1" if "join" not in repr(p) else "sq"), "prog": p, "params": {**({"$k1": [None, None]} if "'$k1'" in repr(p) else {}), **({"$k1s": [0, 3]} if "$k1s" in repr(p) else {})}, "cons": [], "n": n, "labels": ["nested"]}
            for p in progs]


def shapes(tier, seed):
    out = []
    base = [sh for sh in c06.shapes(tier, seed) if not (sh.get("sqlcount") or sh.get("processor") or sh.get("shared") or sh.get("kind") == "processed")]
    for sh in base + _nested(tier):
        for ex in (False, True):
            for decl in ("loose", "zero", "some") if not ex else ("loose", "some"):
                if decl == "some" and not ({"proj none", "dedup"} & set(sh.get("labels") or ()) or "nested" in (sh.get("labels") or ())):
                    continue  # declared lower bounds matter where a result can be statically the join identity
                s = dict(sh)
                s["executor"] = ex
                s["decl"] = decl
                out.append(s)
    return out


def _add_twin(env, eng, tab):
    """Leaf X2: a second leaf object named "X" (iteration engine) bound to its own table."""
    from lsst.daf.relation import LeafRelation, iteration

    rel = LeafRelation(env.engines[eng], frozenset(env.tags[c] for c in LEAVES["X2"]), iteration.RowSequence([]), name="X", min_rows=0, max_rows=None)
    env.leaves["X2"] = rel
    env.tables["X2"] = tab
    if not hasattr(env, "tables_by_id"):
        env.tables_by_id = {}
    env.tables_by_id[id(rel)] = tab
    return rel


def run_shape(shape, tier):
    from lsst.daf.relation import Diagnostics

    prog, eng, n = shape["prog"], shape["eng"], shape["n"]
    used = sorted(c06._leaves_in(prog, set()))
    info = {}

    def h(ctx):
        env = Env(symbolic=True)
        env.count_mode = True
        for name in used:
            if name in SPECIAL:
                env.add_special_leaf(name, SPECIAL[name][0], eng, SPECIAL[name][1])
                continue
            tab = common.sym_table(ctx, name, LEAVES[name], n, ordered=True)
            if name == "X2":
                _add_twin(env, eng, tab)
                continue
            if shape["decl"] == "zero" and name == "X":
                ctx.assume(tab.count() == 0)
                add_abstract_leaf(env, name, LEAVES[name], eng, tab, min_rows=0, max_rows=0)
            elif shape["decl"] == "some":
                ctx.assume(tab.count() >= 1)  # the leaf truthfully declares at least one row
                add_abstract_leaf(env, name, LEAVES[name], eng, tab, min_rows=1, max_rows=None)
            else:
                add_abstract_leaf(env, name, LEAVES[name], eng, tab, min_rows=0, max_rows=None)
        templates.declare(ctx, env, shape["params"], shape["cons"])
        try:
            rel = build(prog, env)
        except Exception as e:  # noqa: BLE001
            from lsst.daf.relation import RelationalAlgebraError
            if isinstance(e, RelationalAlgebraError) and "row order" in str(e):
                raise Skip("rejected at construction: row-order loss")
            return [("accepted", False, {"exc": f"{type(e).__name__}: {e}"[:200]})]
        info.setdefault("tree", str(rel))
        calls = []

        def executor(r):
            calls.append(str(r))
            return SymBool(relmodel.index_order(sem_tree(r, env)).count() > 0)

        try:
            d = Diagnostics.run(rel, executor if shape["executor"] else None)
        except Exception as e:  # noqa: BLE001
            return [("diagnostics runs", False, {"exc": f"{type(e).__name__}: {e}"[:200]})]
        # emptiness of the relation itself (its tree); tree-vs-program agreement is C02/C05's business
        cnt = relmodel.index_order(sem_tree(rel, env)).count()
        doomed = bool(d.is_doomed)
        pcnt = relmodel.index_order(sem_seq(prog, env)).count()  # rows of the applied operation sequence
        obs = []
        if doomed:
            obs.append(("doomed => no rows", cnt == 0, {"messages": d.messages[:3]}))
            obs.append(("doomed => the applied operation sequence has no rows", pcnt == 0, {"messages": d.messages[:3], "tree": str(rel)}))
            obs.append(("doomed => message", len(d.messages) > 0, {}))
        elif shape["executor"]:
            obs.append(("not doomed (with truthful executor) => has rows", cnt > 0, {"executor calls": calls[:4]}))
            obs.append(("not doomed (with truthful executor) => the applied operation sequence has rows", pcnt > 0, {"tree": str(rel)}))
        else:
            obs.append(("not doomed", True, {}))
        return obs

    res = explore(h, max_paths=3000, wall_s=240)
    out = res.as_dict()
    out["shape"] = {"eng": eng, "prog": fmt(prog), "executor": shape["executor"], "decl": shape["decl"]}
    out["sample"] = {"engine": eng, "program": fmt(prog), "tree": info.get("tree"), "executor": shape["executor"], "paths": res.paths}
    vios = []
    for cx in res.cex:
        m = cx["model"]
        bind = templates.bind_concrete(shape["params"], m)
        rows = {name: common.rows_from_model(m, name, LEAVES[name], n) for name in used if name in LEAVES}
        fails, symptom, detail = concrete_check(prog, eng, rows, bind, shape["executor"], shape["decl"])
        if not fails:
            out["status"] = "harness-error"
            out["detail"] = f"counterexample does not reproduce: {fmt(prog)} {bind} {rows} [{cx['label']}] {cx['info']}"
            return out
        mprog = common.minimise(prog, lambda p: concrete_check(p, eng, rows, bind, shape["executor"], shape["decl"])[1] == symptom)
        vios.append({"site": f"{'sq' if eng == 'sq' else 'it'}:{'>'.join(ops_of(mprog))}/{symptom}/{'executor' if shape['executor'] else 'static'}",
                     "summary": f"{fmt(mprog)} bind={bind} rows={rows}: {symptom} {detail}",
                     "replay": {"prog": to_jsonable(mprog), "eng": eng, "rows": rows, "bind": bind, "executor": shape["executor"],
                                "decl": shape["decl"], "symptom": symptom}})
    if vios:
        out["status"], out["violations"] = VIOLATION, vios
    elif res.inconclusive or not res.complete:
        out["status"], out["detail"] = INCONCLUSIVE, "; ".join(res.notes)[:100]
    elif res.skipped and not res.obligations:
        out["status"], out["detail"] = UNDECIDED, res.skipped
    else:
        out["status"] = HOLDS
    return out


def concrete_check(prog, eng, rows, bind, with_executor, decl):
    from lsst.daf.relation import Diagnostics

    env = Env()
    env.bind = dict(bind)
    leafrows = {}
    for name in sorted(c06._leaves_in(prog, set())):
        if name in SPECIAL:
            env.add_special_leaf(name, SPECIAL[name][0], eng, SPECIAL[name][1])
            leafrows[name] = [{}] if SPECIAL[name][0] == "identity" else []
        else:
            if name == "X2":
                twin = _add_twin(env, eng, None)
                leafrows["X2"] = rows[name]
                leafrows[("id", id(twin))] = rows[name]
                continue
            zero = decl == "zero" and name == "X"
            add_abstract_leaf(env, name, LEAVES[name], eng, None, min_rows=1 if decl == "some" else 0, max_rows=0 if zero else None)
            leafrows[name] = rows[name]
    try:
        rel = build(prog, env)
        d = Diagnostics.run(rel, (lambda r: len(pytree(r, leafrows)) > 0) if with_executor else None)
    except Exception as e:  # noqa: BLE001
        return True, f"raises:{type(e).__name__}", str(e)[:150]
    cnt = len(pytree(rel, leafrows))
    pcnt = len(pyeval(prog, leafrows, bind, env.tags))
    if d.is_doomed and cnt > 0:
        return True, "doomed-but-has-rows", {"messages": d.messages, "count": cnt}
    if d.is_doomed and pcnt > 0:
        return True, "doomed-but-sequence-has-rows", {"messages": d.messages, "count": pcnt, "tree": str(rel)}
    if with_executor and not d.is_doomed and pcnt == 0 and cnt > 0:
        return True, "sequence-empty-but-not-doomed", {"tree": str(rel)}
    if d.is_doomed and not d.messages:
        return True, "doomed-without-message", {}
    if with_executor and not d.is_doomed and cnt == 0:
        return True, "empty-but-not-doomed", {"messages": d.messages}
    return False, "", None


def replay(v):
    r = v["replay"]
    prog = from_jsonable(r["prog"])
    fails, symptom, detail = concrete_check(prog, r["eng"], r["rows"], r["bind"], r["executor"], r["decl"])
    return fails and symptom == r["symptom"], f"{fmt(prog)} rows={r['rows']}: {symptom} {detail}"


def describe(tier):
    return {
        "explanation": "Diagnostics.run executes for real on trees of both engines.  Without an executor its verdict is data independent: z3 "
                       "decides is_doomed => count(direct evaluation) = 0 for all leaf contents consistent with the declared bounds.  With an "
                       "executor the harness returns the symbolic truth (SymBool of count(sem_tree(r)) > 0), so run() forks inside the real "
                       "code; on every path z3 decides is_doomed <=> count = 0, and doomed => messages non-empty.",
        "bounds": {"slots per leaf": 2 if tier == "quick" else 3, "programs": "as C06 (unary depth <=2/3, chains, joins, doomed / identity / "
                   "zero-column leaves, trivially false predicates, zero-limit slices)"},
        "outside": ["deeper programs", "executors that lie"],
        "assumptions": ["leaf declared bounds truthful"],
    }
