"""C02 - SQL compilation preserves relational semantics (translation validation)."""
from __future__ import annotations

import z3

from .. import common, relmodel, sqlmodel, sqlprogs, templates
from ..driver import HOLDS, INCONCLUSIVE, UNDECIDED, VIOLATION
from ..prog import Env, build, fmt, from_jsonable, ops_of, pyeval, sem_seq, shared_nonkey, to_jsonable
from ..symx import Skip, explore

PID = "C02"
LEVEL = "translation_validation"


def shapes(tier, seed):
    out = []
    n_un = 3 if tier == "quick" else 4
    n_bin = 2 if tier == "quick" else 3
    for node, params, cons in sqlprogs.unary_programs(tier, n_un + 2):
        out.append({"prog": node, "params": params, "cons": cons, "n": n_un})
    for node, params, cons in sqlprogs.binary_programs(tier, n_bin * n_bin + 1 if tier == "thorough" else 4):
        heavy = "slice" in ops_of(node) or "sort" in ops_of(node)
        out.append({"prog": node, "params": params, "cons": cons, "n": 2 if heavy else n_bin})
    for node, params, cons in sqlprogs.nested_programs(tier, 4):
        out.append({"prog": node, "params": params, "cons": cons, "n": 2})
    return out


def cost(shape):
    ops = ops_of(shape["prog"])
    return (1 + 8 * ops.count("slice") + 3 * ops.count("sort") + 2 * ops.count("join") + ops.count("dedup")) * shape["n"] ** 2


def run_shape(shape, tier):
    from lsst.daf.relation import RelationalAlgebraError

    prog, n = shape["prog"], shape["n"]
    cache = {}
    info = {}

    def h(ctx):
        env = Env(symbolic=True)
        sqlprogs.setup_leaves(ctx, env, prog, n)
        templates.declare(ctx, env, shape["params"], shape["cons"])
        if "refs" not in cache:  # first: programs whose result is indeterminate are not decided at all (no need to build them)
            alts = ("l", "r") if shared_nonkey(prog, env) else ("l",)
            cache["refs"] = [relmodel.unordered(sem_seq(prog, env, prefer=p)) for p in alts]
        sqlprogs.history(env, prog)
        try:
            rel = build(prog, env)
        except RelationalAlgebraError as e:
            raise Skip(f"rejected at construction: {type(e).__name__}{' (row order)' if 'row order' in str(e) else ''}")
        except Exception as e:  # noqa: BLE001
            raise Skip(f"construction fails: {type(e).__name__} (see C05/C08)")
        info.setdefault("tree", str(rel))
        try:
            ex = env.engines["sq"].to_executable(rel)
        except Exception as e:  # noqa: BLE001
            raise Skip(f"compile failure: {type(e).__name__} (see C08)")
        refs = cache["refs"]
        try:
            got = sqlprogs.strip_ignored(sqlmodel.select(ex, env.tables))
        except sqlmodel.OutsideModel as e:
            # the program is determinate, yet the statement is outside the model (e.g. OFFSET without ORDER BY): remember the
            # parameter values of this path so that the statement is at least executed on the real SQLite afterwards
            if ctx.check() == z3.sat and len(info.setdefault("outside", [])) < 4:
                from ..symx import model_values
                info["outside"].append(templates.bind_concrete(shape["params"], model_values(ctx.solver.model(), ctx.vars)))
            raise Skip(f"outside SQL model: {e}")
        except sqlmodel.SqlInvalid as e:
            if "no such table" in str(e):
                # not a translation of this tree at all: the statement reads a table that is not one of the tree's leaves
                return [("the SQL reads only the leaf tables of the tree", False, {"why": str(e), "sql": str(ex)[:200]})]
            raise Skip(f"invalid SQL: {e} (see C08)")
        info.setdefault("sql", str(ex)[:300])
        got = relmodel.unordered(got)
        if got.cols != refs[0].cols:
            return [("columns", False, {"sql columns": sorted(got.cols), "expected": sorted(refs[0].cols)})]
        return [("rows (multiset)", z3.Or(*[relmodel.mset_eq(got, r) for r in refs]), {})]

    res = explore(h, max_paths=600 if len(shape["params"]) < 6 else 4000, wall_s=150 if tier == "quick" else 900, timeout_ms=30000 if tier == "quick" else 120000)
    out = res.as_dict()
    out["shape"] = fmt(prog)
    out["sample"] = {"program": fmt(prog), "tree": info.get("tree"), "sql": info.get("sql"), "slots per leaf": n, "paths": res.paths}
    vios = []
    for cx in res.cex:
        m = cx["model"]
        bind = templates.bind_concrete(shape["params"], m)
        rows = {name: (common.rows_from_model(m, name, sqlprogs.table_cols(name), n) if name != "I" else [{}]) for name in sqlprogs.leaves_in(prog)}
        fails, symptom, detail = concrete_check(prog, rows, bind)
        if not fails:
            out["status"] = "harness-error"
            out["detail"] = f"counterexample does not reproduce on SQLite: {fmt(prog)} {bind} {rows} [{cx['label']}] {cx['info']}"
            return out
        mprog = common.minimise(prog, lambda p: concrete_check(p, rows, bind)[1] == symptom)
        md = concrete_check(mprog, rows, bind)[2]
        vios.append({"site": _site(mprog, symptom, md), "summary": f"{fmt(mprog)} bind={bind} tables={rows}: {symptom} {md}",
                     "replay": {"prog": to_jsonable(mprog), "rows": rows, "bind": bind, "symptom": symptom}})
    if not vios:
        for bind in info.get("outside", []):
            fails, symptom, detail = concrete_check(prog, sqlprogs.BATTERY, bind)
            if fails:
                vios.append({"site": _site(prog, symptom, detail) + "/statement-outside-model", "summary": f"{fmt(prog)} bind={bind} battery tables: {symptom} {detail}",
                             "replay": {"prog": to_jsonable(prog), "rows": sqlprogs.BATTERY, "bind": bind, "symptom": symptom}})
                break
    if vios:
        out["status"], out["violations"] = VIOLATION, vios
    elif res.inconclusive or not res.complete:
        out["status"], out["detail"] = INCONCLUSIVE, "; ".join(res.notes)[:100]
    elif res.skipped and not res.obligations:
        out["status"], out["detail"] = UNDECIDED, res.skipped
    else:
        bad = sqlprogs.validate_model(prog, shape["params"])
        out["counters"] = {"programs whose SQL model evaluation was compared with a real SQLite run": 1}
        if bad:
            out["status"], out["detail"] = "harness-error", "SQL model disagrees with SQLite: " + bad
        else:
            out["status"] = HOLDS
    return out


def _site(prog, symptom, detail):
    ops = ops_of(prog)
    extra = ""
    if isinstance(detail, dict) and detail.get("hidden"):
        extra = "/hidden-column"
    return f"{'>'.join(ops)}/{symptom}{extra}"


def concrete_check(prog, rows, bind):
    """Real compile + real SQLite (both scan orders) vs the plain list evaluator (multiset)."""
    if not sqlprogs.determinate(prog, bind):
        return False, "indeterminate", None
    env0 = sqlprogs.concrete_env(prog, bind)
    exps = [common.canon(pyeval(prog, rows, bind, env0.tags, prefer=p)) for p in ("l", "r")]
    for reverse in (False, True):
        try:
            rel, ex, got, env = sqlprogs.run_real_sql(prog, bind, rows, reverse=reverse)
        except Exception as e:  # noqa: BLE001
            if "no such table" in str(e):
                return True, "sql-reads-foreign-table", str(e)[:160]
            return False, f"raises:{type(e).__name__}", str(e)[:120]
        if common.canon(got) not in exps:
            hidden = _uses_hidden(prog, rows, bind, got)
            return True, "rows-differ", {"tree": str(rel), "expected": pyeval(prog, rows, bind, env0.tags), "observed": got,
                                         "reverse_unordered_selects": reverse, "hidden": hidden}
    return False, "", None


def _uses_hidden(prog, rows, bind, got):
    """Heuristic classifier: the program projects some column away below a join."""
    def walk(n, under_join):
        if n[0] == "join":
            return walk(n[1], True) or walk(n[2], True)
        if n[0] == "proj" and under_join:
            return True
        return any(walk(x, under_join) for x in n[1:3] if isinstance(x, tuple) and x and x[0] in (
            "leaf", "calc", "proj", "sel", "dedup", "sort", "slice", "chain", "join"))
    return walk(prog, False)


def replay(v):
    r = v["replay"]
    prog = from_jsonable(r["prog"])
    fails, symptom, detail = concrete_check(prog, r["rows"], r["bind"])
    return fails and symptom == r["symptom"], f"{fmt(prog)} tables={r['rows']} bind={r['bind']}: {symptom} {detail}"


def describe(tier):
    return {
        "explanation": "Translation validation: every factory call runs for real in the SQL engine (under symx: literals, slice bounds "
                       "symbolic; LIMIT/OFFSET case-split), the real to_executable() output - a SQLAlchemy AST - is given an SMT "
                       "semantics over symbolic leaf tables (N slots each with presence flags => all row counts 0..N at once, "
                       "unbounded integer values) and z3 decides multiset equality with direct evaluation of the operation sequence "
                       "(natural join on shared key columns + predicate, UNION ALL, DISTINCT).  Column provenance is part of the VC "
                       "because X and Y carry independent values under the same tags.  The SQL model is validated against a real "
                       "SQLite on a fixed assignment for every decided program; counterexamples are replayed on SQLite under both "
                       "reverse_unordered_selects settings.",
        "bounds": {"slots per leaf": "3 unary / 2 binary (quick); 4 / 3 (thorough)", "depth": "unary 1-2 exhaustive, 3 curated; binary: "
                   "operands with <=1 operation (plus sorted+sliced operands), optional predicate, <=1 operation on top; 12 nested shapes",
                   "values/literals": "unbounded integers", "slice bounds": "0..N+2"},
        "outside": ["indeterminate programs (slice without a total upstream sort; see DESIGN 2.4)", "SQL constructs outside the model",
                    "dialects other than SQLite (model validated on SQLite only)", "NULLs, 64-bit overflow"],
        "assumptions": ["sqlmodel is the SQL standard restricted to NULL-free integers (validated against SQLite on every run)"],
    }
