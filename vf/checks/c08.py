"""C08 - every tree the factories accept can be compiled and executed."""
from __future__ import annotations

import z3

from .. import common, relmodel, sqlmodel, sqlprogs, templates
from ..driver import HOLDS, INCONCLUSIVE, UNDECIDED, VIOLATION
from ..prog import Env, IllTyped, build, cols_of, expression_history, fmt, from_jsonable, ops_of, to_jsonable
from ..symx import Skip, explore

PID = "C08"
LEVEL = "other"
D3 = ("sort a", "sort total", "proj -b", "proj a", "dedup", "slice s:e", "sel a>k", "calc d", "proj -v", "sel false")
D4 = ("sort -a", "proj -b", "proj a", "dedup", "slice s:e", "sel a>k", "sort b,-a")


def shapes(tier, seed):
    out = []
    hi = 2
    X = ("leaf", "X")
    seen = set()

    def add(node, params, cons, eng="sq"):
        key = (eng, repr(node))
        if key in seen:
            return
        seen.add(key)
        out.append({"prog": node, "params": params, "cons": cons, "eng": eng})

    for d in (1, 2):
        for labs, node, p in templates.unary_sequences(X, sqlprogs.LEAFCOLS, d, "full", slice_hi=hi):
            add(node, p.params, p.cons)
    for labs, node, p in templates.unary_sequences(X, sqlprogs.LEAFCOLS, 3, "std", slice_hi=hi, labels=D3):
        add(node, p.params, p.cons)
    for labs, node, p in templates.unary_sequences(X, sqlprogs.LEAFCOLS, 4, "std", slice_hi=hi, labels=D4):
        add(node, p.params, p.cons)
    # projections that drop exactly what was calculated last (the calculation is elided and the projection may vanish with it)
    for labs, node, p in templates.unary_sequences(X, sqlprogs.LEAFCOLS, 3, "std", slice_hi=hi, labels=("calc d", "calc e", "proj -e", "proj -d", "sel a>k", "dedup")):
        if "proj -e" in labs or "proj -d" in labs:
            add(node, p.params, p.cons)
    if tier == "thorough":
        for labs, node, p in templates.unary_sequences(X, sqlprogs.LEAFCOLS, 5, "std", slice_hi=hi,
                                                       labels=("sort -a", "proj -b", "proj a", "dedup", "slice s:e", "calc d")):
            add(node, p.params, p.cons)
    for node, params, cons in sqlprogs.binary_programs(tier, hi) + sqlprogs.nested_programs(tier, hi):
        add(node, params, cons)
    # every binary nesting of two binary results, self joins / self chains, identity and doomed operands
    Y, Z = ("leaf", "Y"), ("leaf", "Z")
    bases = [X, ("sel", X, ("gt", sqlprogs.A, ("lit", "$k"))), ("chain", X, Y), ("join", X, Z, None),
             ("slice", ("sort", X, ((sqlprogs.A, True),)), 0, 2), ("dedup", X), ("proj", X, ("a", "b"))]
    others = [X, Y, Z, ("chain", Y, X), ("join", Y, Z, None), ("proj", Y, ("a",)), ("dedup", ("proj", Y, ("a", "b")))]
    CH = ("chain", X, Y)
    for node in (("proj", ("sort", CH, ((sqlprogs.B, True),)), ("a", "v")), ("sort", CH, ((("neg", sqlprogs.A), True),)),
                 ("sort", CH, ((("add", sqlprogs.A, sqlprogs.B), False),)), ("slice", ("sort", CH, ((("neg", sqlprogs.A), True),)), 0, 2),
                 ("dedup", ("proj", ("sort", CH, ((sqlprogs.B, True),)), ("a",))), ("proj", ("slice", ("sort", CH, ((sqlprogs.B, True),)), 0, 2), ("a",))):
        add(node, {}, [])
    sl = ("slice", X, "$s1", "$e1")
    slp = {"$s1": [0, hi], "$e1": [0, hi]}
    for o in (Y, ("dedup", Y), ("slice", Y, "$s2", "$e2")):
        p2 = dict(slp)
        if "$s2" in repr(o):
            p2.update({"$s2": [0, hi], "$e2": [0, hi]})
        cons = [["$s1", "$e1"]] + ([["$s2", "$e2"]] if "$s2" in repr(o) else [])
        for node in (("chain", sl, o), ("chain", o, sl), ("dedup", ("chain", sl, o)), ("join", sl, ("leaf", "Z"), None),
                     ("join", ("leaf", "Z"), sl, None), ("chain", ("dedup", sl), o), ("chain", ("proj", sl, ("a", "b")), ("proj", o, ("a", "b")))):
            try:
                cols_of(node, sqlprogs.LEAFCOLS)
            except IllTyped:
                continue
            add(node, p2, cons)
    for b in bases:
        for o in others:
            for node in (("join", b, o, None), ("join", o, b, None), ("chain", b, o), ("chain", o, b)):
                try:
                    cols_of(node, sqlprogs.LEAFCOLS)
                except IllTyped:
                    continue
                params = {"$k": [None, None]} if "$k" in repr(node) else {}
                add(node, params, [])
                add(("dedup", node), params, [])
    # engine-specific functions (only one engine kind implements them), bare and nested inside generic nodes: accepted => executes
    A, B = sqlprogs.A, sqlprogs.B
    for k in ("sq", "it"):
        f = ("efn", A, k)
        for e in (f, ("neg", f), ("add", f, B), ("mul", ("add", B, f), ("lit", 2))):
            for node in (("calc", X, "d", e), ("sort", X, ((e, True),)), ("sel", X, ("gt", e, ("lit", "$k"))), ("sel", X, ("not", ("le", B, e))),
                         ("sel", X, ("or", ("gt", A, B), ("inseq", A, (B, e)))), ("dedup", ("proj", ("calc", X, "d", e), ("a", "d"))),
                         ("slice", ("sort", ("calc", X, "d", e), ((("ref", "d"), True), (A, True), (B, True), (("ref", "v"), True))), 0, 1)):
                add(node, {"$k": [None, None]} if "$k" in repr(node) else {}, [])
    return out + iter_shapes(tier)


def iter_shapes(tier):
    """Iteration-engine programs: accepted trees must execute (twice, and when reused) without an internal error."""
    out = []
    X = ("leaf", "X")
    LC = {"X": ("a", "b", "c"), "Y": ("a", "b", "c")}
    labels = ("calc d", "proj -a", "proj none", "sel a>k", "sel false", "dedup", "sort b,-a", "slice s:e", "slice s:")
    progs = []
    for d in (1, 2):
        for labs, node, p in templates.unary_sequences(X, LC, d, "std", slice_hi=3, labels=labels):
            progs.append((node, p.params, p.cons))
    A, B = ("ref", "a"), ("ref", "b")
    for k in ("it", "sq"):
        f = ("efn", A, k)
        for e in (f, ("neg", f), ("add", f, B)):
            for node in (("calc", X, "d", e), ("sort", X, ((e, True),)), ("sel", X, ("gt", e, ("lit", "$k1"))), ("sel", X, ("not", ("le", B, e)))):
                progs.append((node, {"$k1": [None, None]} if "$k1" in repr(node) else {}, []))
    # operations inserted upstream of a transfer by backtracking (preferred engine = the source engine): what the factories
    # accept must still execute
    AB = ("add", A, B)
    T2 = ("xfer", X, "it2")
    back = ("it1", True, False, False)
    for mid in (("calc", T2, "d", AB), ("sel", ("calc", T2, "d", AB), ("gt", ("ref", "d"), ("lit", "$k1"))), ("sort", ("calc", T2, "d", AB), ((("ref", "d"), True),)),
                ("dedup", ("calc", T2, "d", ("neg", A)))):
        for fin in (("proj", mid, ("a", "c", "d"), back), ("proj", mid, ("d",), back), ("proj", mid, ("a", "b"), back),
                    ("sel", mid, ("gt", ("ref", "d"), A), back), ("sort", mid, ((("ref", "d"), False), (B, True)), back),
                    ("calc", mid, "e", ("mul", ("ref", "d"), ("lit", 2)), back), ("proj", ("proj", mid, ("a", "b", "d")), ("d",), back)):
            progs.append((fin, {"$k1": [None, None]} if "$k1" in repr(fin) else {}, []))
    more = []
    for node, params, cons in progs:
        more.append((("mat", node, "m"), params, cons))
        more.append((("chain", ("mat", node, "m"), ("mat", node, "m")), params, cons))
        more.append((("xfer", node, "it2"), params, cons))
        more.append((("dedup", ("xfer", ("mat", node, "m"), "it2")), params, cons))
    for node, params, cons in progs + more:
        for n in (0, 2):
            for decl in ("exact", "loose"):
                out.append({"eng": "it", "prog": node, "params": params, "cons": cons, "n": n, "decl": decl})
    return out


def run_iter_shape(shape):
    from lsst.daf.relation import ColumnError, EngineError, LeafRelation, RelationalAlgebraError, iteration

    prog = shape["prog"]

    def make(ctx, vals=None):
        env = Env(symbolic=ctx is not None)
        rows = [{c: (ctx.int(f"X.{c}{i}") if ctx is not None else int(vals.get(f"X.{c}{i}", 0))) for c in "abc"} for i in range(shape["n"])]
        if shape["decl"] == "exact":
            env.add_iter_leaf("X", "abc", rows)
        else:
            env.add_iter_leaf("X", "abc", rows, min_rows=0, max_rows=None)
        return env

    def attempt(env):
        memo = {}
        expression_history(env, prog)
        try:
            rel = build(prog, env, memo)
        except (ColumnError, EngineError, RelationalAlgebraError):
            return "rejected", None
        try:
            for _ in range(2):
                list(rel.engine.execute(rel))
            top = rel.with_only_columns(frozenset())
            list(top.engine.execute(top))
            list(rel.engine.execute(rel))
        except Exception as e:  # noqa: BLE001
            return "fails", f"{type(e).__name__}: {e}"[:160]
        return "ok", None

    def h(ctx):
        env = make(ctx)
        templates.declare(ctx, env, shape["params"], shape["cons"])
        outcome, err = attempt(env)
        if outcome == "rejected":
            raise Skip("rejected at construction")
        return [("accepted tree executes (twice, and as part of a larger tree)", outcome == "ok", {"error": err})]

    res = explore(h, max_paths=1500, wall_s=90)
    out = res.as_dict()
    out["shape"] = {"engine": "iteration", "prog": fmt(prog), "rows": shape["n"], "decl": shape["decl"]}
    out["sample"] = {"engine": "iteration", "program": fmt(prog), "rows": shape["n"], "declared bounds": shape["decl"], "paths": res.paths}
    for cx in res.cex[:1]:
        env = make(None, cx["model"])
        env.bind = templates.bind_concrete(shape["params"], cx["model"])
        outcome, err = attempt(env)
        if outcome != "fails":
            out["status"], out["detail"] = "harness-error", f"counterexample does not reproduce: {fmt(prog)} {cx['info']}"
            return out
        out["status"] = VIOLATION
        out["violations"] = [{"site": f"it:{'>'.join(ops_of(prog))}/execute:{err.split(':')[0]}", "summary": f"{fmt(prog)} rows={shape['n']} {shape['decl']}: {err}",
                              "replay": {"iter": True, "shape": to_jsonable(shape), "model": cx["model"]}}]
        return out
    if res.inconclusive or not res.complete:
        out["status"], out["detail"] = INCONCLUSIVE, "; ".join(res.notes)[:100]
    elif res.skipped and not res.obligations:
        out["status"], out["detail"] = UNDECIDED, res.skipped
    else:
        out["status"] = HOLDS
    return out


def cost(shape):
    if shape.get("eng") == "it":
        return 3 + 4 * ops_of(shape["prog"]).count("sort")
    return len(ops_of(shape["prog"])) + 5 * ops_of(shape["prog"]).count("slice")


def _phase_check(prog, bind):
    """Concrete pipeline with ordinary ints on empty tables: -> (phase, exception or None)."""
    from lsst.daf.relation import ColumnError, EngineError, RelationalAlgebraError

    env = sqlprogs.concrete_env(prog, bind)
    expression_history(env, prog)
    try:
        rel = build(prog, env)
    except (ColumnError, EngineError) as e:
        return "rejected", e, None
    except RelationalAlgebraError as e:
        return ("rejected" if "row order" in str(e) else "construction"), e, None
    except Exception as e:  # noqa: BLE001
        return "construction", e, None
    try:
        ex = env.engines["sq"].to_executable(rel)
    except Exception as e:  # noqa: BLE001
        return "compile", e, rel
    try:
        sqlmodel.run_sqlite(ex, env.metadata, {})
    except Exception as e:  # noqa: BLE001
        return "sqlite", e, rel
    return "ok", None, rel


def _symptom(phase, e):
    msg = str(getattr(e, "orig", e))
    if phase == "sqlite":
        if "ambiguous column" in msg:
            return "sqlite:ambiguous-column"
        if "syntax error" in msg:
            return "sqlite:syntax-error"
        if "no such column" in msg:
            return "sqlite:no-such-column"
        return "sqlite:" + type(getattr(e, "orig", e)).__name__
    return f"{phase}:{type(e).__name__}"


def run_shape(shape, tier):
    if shape.get("eng") == "it":
        return run_iter_shape(shape)
    prog = shape["prog"]
    info = {}

    def h(ctx):
        from lsst.daf.relation import ColumnError, EngineError, RelationalAlgebraError

        env = Env(symbolic=True)
        sqlprogs.setup_leaves(ctx, env, prog, 1)
        templates.declare(ctx, env, shape["params"], shape["cons"])
        expression_history(env, prog)
        sqlprogs.history(env, prog)
        try:
            rel = build(prog, env)
        except (ColumnError, EngineError) as e:
            raise Skip(f"rejected at construction: {type(e).__name__}")
        except RelationalAlgebraError as e:
            if "row order" in str(e):
                raise Skip("rejected at construction: row-order loss")
            raise Skip(f"construction raises {type(e).__name__} (see C05/C20)")
        except Exception as e:  # noqa: BLE001
            raise Skip(f"construction raises {type(e).__name__} (see C05/C20)")
        info.setdefault("tree", str(rel))
        obs = []
        try:
            ex = env.engines["sq"].to_executable(rel)
        except Exception as e:  # noqa: BLE001
            return [("compiles", False, {"exc": f"{type(e).__name__}: {e}"[:160], "tree": str(rel)})]
        obs.append(("compiles", True, {}))
        try:
            sqlmodel.select(ex, env.tables)
            obs.append(("statement well-formed (columns resolve unambiguously, UNION arity)", True, {}))
        except sqlmodel.SqlInvalid as e:
            return obs + [("statement well-formed (columns resolve unambiguously, UNION arity)", False, {"why": str(e)[:160]})]
        except sqlmodel.OutsideModel as e:
            info["outside"] = str(e)
        # the statement's structure is fixed along the path: prepare one concrete instantiation on SQLite
        if ctx.check() != z3.sat:
            raise Skip("path condition unknown")
        from ..symx import model_values
        bind = templates.bind_concrete(shape["params"], model_values(ctx.solver.model(), ctx.vars))
        phase, e, _ = _phase_check(prog, bind)
        obs.append(("database accepts the statement", phase == "ok", {"phase": phase, "exc": str(e)[:160], "bind": bind}))
        return obs

    res = explore(h, max_paths=400, wall_s=120)
    out = res.as_dict()
    out["shape"] = fmt(prog)
    out["sample"] = {"program": fmt(prog), "tree": info.get("tree"), "paths": res.paths, "obligations": res.obligations}
    vios = []
    for cx in res.cex:
        bind = (cx["info"] or {}).get("bind") or templates.bind_concrete(shape["params"], cx["model"])
        fails, symptom, detail = concrete_check(prog, bind)
        if not fails:
            out["status"] = "harness-error"
            out["detail"] = f"counterexample does not reproduce: {fmt(prog)} {bind} [{cx['label']}] {cx['info']}"
            return out
        mprog = common.minimise(prog, lambda p: concrete_check(p, bind)[1] == symptom)
        vios.append({"site": _site(mprog, symptom), "summary": f"{fmt(mprog)} bind={bind}: {symptom} {concrete_check(mprog, bind)[2]}",
                     "replay": {"prog": to_jsonable(mprog), "bind": bind, "symptom": symptom}, "original_program": fmt(prog)})
        break
    if vios:
        out["status"], out["violations"] = VIOLATION, vios
    elif res.inconclusive or not res.complete:
        out["status"], out["detail"] = INCONCLUSIVE, "; ".join(res.notes)[:100]
    elif res.skipped and not res.obligations:
        out["status"], out["detail"] = UNDECIDED, res.skipped
    else:
        out["status"] = HOLDS
    return out


def _same_table_join(prog):
    """Some join whose operands read the same leaf table."""
    def walk(n):
        if n[0] == "leaf":
            return False
        if n[0] == "join":
            if sqlprogs.leaves_in(n[1]) & sqlprogs.leaves_in(n[2]):
                return True
        return any(walk(x) for x in n[1:3] if isinstance(x, tuple) and x and x[0] in (
            "leaf", "calc", "proj", "sel", "dedup", "sort", "slice", "chain", "join"))
    return walk(prog)


def _site(prog, symptom):
    ops = ops_of(prog)
    s = f"{'>'.join(ops)}/{symptom}"
    if symptom == "sqlite:ambiguous-column" and _same_table_join(prog):
        s += "/same-table-in-both-join-operands"
    return s


def concrete_check(prog, bind):
    phase, e, rel = _phase_check(prog, bind)
    if phase in ("ok", "rejected", "construction"):
        return False, phase, None
    return True, _symptom(phase, e), {"exc": f"{type(e).__name__}: {str(getattr(e, 'orig', e))[:160]}", "tree": str(rel)}


def replay(v):
    r = v["replay"]
    if r.get("iter"):
        sh = r["shape"]
        sh["prog"] = from_jsonable(sh["prog"])
        sh["params"] = {k: v for k, v in sh["params"].items()}
        out = run_iter_shape(sh)
        return out["status"] == VIOLATION, f"{fmt(sh['prog'])}: {out.get('violations', [{}])[0].get('summary', 'executes')}"
    prog = from_jsonable(r["prog"])
    fails, symptom, detail = concrete_check(prog, r["bind"])
    return fails and symptom == r["symptom"], f"{fmt(prog)} bind={r['bind']}: {symptom} {detail}"


def describe(tier):
    return {
        "explanation": "Control-flow totality of the SQL pipeline: every program the factories accept (no ColumnError / EngineError / row-order "
                       "error at construction) is compiled by the real engine under symx with symbolic slice bounds and literals; on every "
                       "path compilation must return, every column reference of the statement must resolve unambiguously in its FROM scope "
                       "(sqlmodel), and one concrete instantiation of the path (z3 model of the path condition; the statement's structure "
                       "is fixed along a path) is prepared and executed on a real SQLite with empty tables.",
        "bounds": {"depth": "unary 1-2 exhaustive over templates, 3 (10 templates) and 4 (7 templates) curated" +
                   (", 5 curated" if tier == "thorough" else "") + "; all binary nestings of 7 bases x 7 operands, binary programs of C02",
                   "slice bounds": "0..2", "database": "SQLite 3.40 only"},
        "outside": ["joins in the iteration engine (documented as unsupported: EngineError at execute)", "other SQL dialects",
                    "iteration-engine family: unary depth <=2 over 9 templates, materialized / transferred / chained-with-itself "
                    "variants, 0 and 2 symbolic rows, exact and loose declared bounds, executed twice and once more under a projection"],
        "assumptions": ["acceptance by SQLite stands for 'the target database'"],
    }
