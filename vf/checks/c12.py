"""C12 - column expressions mean the same thing in every engine (three-way agreement)."""
from __future__ import annotations

import z3

from .. import exprgen, exprsem, sqlmodel
from ..driver import HOLDS, INCONCLUSIVE, UNDECIDED, VIOLATION
from ..prog import Env, from_jsonable, to_jsonable
from ..symx import explore, zbool, zint

PID = "C12"
LEVEL = "other"
COLS = ("a", "b", "c")
VBOUND = 2 ** 20


def shapes(tier, seed):
    depth = 2 if tier == "quick" else 4
    out = [{"kind": "pred", "ast": p} for p in exprgen.pred_pool(depth, wide=(tier == "thorough"))]
    out += [{"kind": "expr", "ast": e} for e in exprgen.expr_pool(2 if tier == "quick" else 3)]
    R, S = (5, 3) if tier == "quick" else (10, 5)
    for start in range(-R, R + 1):
        for stop in range(-R, R + 1):
            for step in [s for s in range(-S, S + 1) if s != 0]:
                out.append({"kind": "range", "ast": ("inrange", ("ref", "a"), start, stop, step)})
    for (start, stop, step) in [(-3, 4, 2), (4, -3, -2), (0, 5, 1), (2, 11, 3), (-7, -1, 3)]:
        out.append({"kind": "range", "ast": ("inrange", ("add", ("ref", "a"), ("ref", "b")), start, stop, step)})
        out.append({"kind": "range", "ast": ("not", ("inrange", ("sub", ("ref", "a"), ("lit", "$k")), start, stop, step))})
    # membership in sequences of integer literals: every tuple of length 0..3 (4 when thorough) over a small box, plus mixed ones
    import itertools
    box = (-1, 0, 1, 2, 3) if tier == "quick" else (-2, -1, 0, 1, 2, 3, 5)
    for n in range(0, 4 if tier == "quick" else 5):
        for tup in itertools.product(box, repeat=n):
            if n == 4 and len(set(tup)) == 4 and list(tup) != sorted(tup):
                continue
            out.append({"kind": "litseq", "ast": ("inseq", ("ref", "a"), tuple(("lit", v) for v in tup))})
    for tup in [(0, 2, "$k"), ("$k", "$k"), (1, 2, ("ref", "b")), (3, 1, 2, 0), (0, 1, 1, 3), (4, 4, 2, 3)]:
        items = tuple(t if isinstance(t, tuple) else ("lit", t) for t in tup)
        out.append({"kind": "litseq", "ast": ("inseq", ("add", ("ref", "a"), ("ref", "c")), items)})
        out.append({"kind": "litseq", "ast": ("not", ("inseq", ("ref", "a"), items))})
    return out


def _sql_side(env, obj, is_pred, ast=None):
    import sqlalchemy as sa

    md = sa.MetaData()
    tbl = sa.Table("T", md, *[sa.Column(c, sa.Integer) for c in COLS])
    ca = {env.tags[c]: tbl.c[c] for c in COLS}
    sq = env.engines["sq"]
    if ast is not None:
        # the SQL side sees literals exactly as a caller supplies them (plain ints; only $k/$m stay symbolic):
        # the symbolic wrapper around constants exists for the iteration engine's set lookups only (DESIGN 2.2)
        obj = exprsem.lib_of_ast(ast, env.tags, lambda v: env.bind[v] if isinstance(v, str) else v)
    # earlier life of the same engine: an equal expression (another object) and the object itself were converted against
    # another table that exposes the same tags; nothing of that may show up in the conversion against T
    old = sa.Table("old_T", sa.MetaData(), *[sa.Column(c, sa.Integer) for c in COLS])
    ca_old = {env.tags[c]: old.c[c] for c in COLS}
    try:
        twin = exprsem.lib_of_ast(ast, env.tags, lambda v: env.bind[v] if isinstance(v, str) else v) if ast is not None else obj
        for o in (twin, obj):
            _ = sq.convert_predicate(o, ca_old) if is_pred else sq.convert_column_expression(o, ca_old)
            if is_pred:
                sq.convert_flattened_predicate(o, ca_old)
    except Exception:  # noqa: BLE001 - the earlier conversion is not the subject
        pass
    el = sq.convert_predicate(obj, ca) if is_pred else sq.convert_column_expression(obj, ca)
    return tbl, el


def run_shape(shape, tier):
    ast = shape["ast"]
    is_pred = shape["kind"] != "expr"

    def h(ctx):
        env = Env(symbolic=True)
        env.bind["$k"] = ctx.int("k", -VBOUND, VBOUND)
        env.bind["$m"] = ctx.int("m", -VBOUND, VBOUND)
        row = {c: ctx.int(f"row.{c}", -VBOUND, VBOUND) for c in COLS}
        zrow = {c: row[c].t for c in COLS}
        truth = exprsem.z3_of_ast(ast, zrow, env.bind)
        obj = exprsem.lib_of_ast(ast, env.tags, env.val)
        it = env.engines["it1"]
        full = {env.tags[c]: row[c] for c in COLS}
        obs = []
        try:
            fn = (it.convert_predicate if is_pred else it.convert_column_expression)(obj)
            v = fn(full)
            obs.append(("iteration callable == meaning", (zbool(v) if is_pred else zint(v)) == truth, {}))
            # the same compiled callable applied to a second, independent row (callables are reused for every row)
            row2 = {c: ctx.int(f"row2.{c}", -VBOUND, VBOUND) for c in COLS}
            truth2 = exprsem.z3_of_ast(ast, {c: row2[c].t for c in COLS}, env.bind)
            v2 = fn({env.tags[c]: row2[c] for c in COLS})
            obs.append(("iteration callable reused on a second row == meaning", (zbool(v2) if is_pred else zint(v2)) == truth2, {}))
        except Exception as e:  # noqa: BLE001
            obs.append(("iteration callable evaluates", False, {"exc": f"{type(e).__name__}: {e}"[:150]}))
        try:
            tbl, el = _sql_side(env, obj, is_pred, ast)
            sc = sqlmodel.Scope()
            for c in COLS:
                sc.m[(id(tbl), c)] = zrow[c]
            sv = sqlmodel.expr(el, sc)
            obs.append(("SQL translation == meaning", (sqlmodel.as_bool(sv) if is_pred else sqlmodel.as_int(sv)) == truth,
                        {"sql": str(el)}))
            if is_pred:
                from ..relmodel import zand
                obj_sql = exprsem.lib_of_ast(ast, env.tags, lambda v: env.bind[v] if isinstance(v, str) else v)
                terms = env.engines["sq"].convert_flattened_predicate(obj_sql, {env.tags[c]: tbl.c[c] for c in COLS})
                conj = zand(sqlmodel.as_bool(sqlmodel.expr(t, sc)) for t in terms)
                obs.append(("SQL WHERE terms (convert_flattened_predicate) == meaning", conj == truth, {"terms": [str(t) for t in terms]}))
        except sqlmodel.OutsideModel as e:
            obs.append(("SQL translation inside model", True, {"outside": str(e)}))
            ctx.notes["outside"] = str(e)
        except Exception as e:  # noqa: BLE001
            obs.append(("SQL translation converts", False, {"exc": f"{type(e).__name__}: {e}"[:150]}))
        return obs

    res = explore(h, max_paths=2000)
    out = res.as_dict()
    out["shape"] = exprsem.ast_str(ast)
    out["sample"] = {"kind": shape["kind"], "expression": exprsem.ast_str(ast), "paths": res.paths, "obligations": res.obligations}
    vios = []
    for cx in res.cex:
        m = cx["model"]
        bind = {"$k": m.get("k", 0), "$m": m.get("m", 0)}
        row = {c: m.get(f"row.{c}", 0) for c in COLS}
        row2 = {c: m.get(f"row2.{c}", 0) for c in COLS}
        fails, what, detail = concrete_check(shape, row, bind, row2)
        if not fails:
            out["status"] = "harness-error"
            out["detail"] = f"counterexample does not reproduce: {exprsem.ast_str(ast)} row={row} bind={bind} [{cx['label']}] {cx['info']}"
            return out
        vios.append({"site": _site(shape, what), "summary": f"{exprsem.ast_str(ast)} on row {row} with {bind}: {what} {detail}",
                     "replay": {"shape": to_jsonable(shape), "row": row, "row2": row2, "bind": bind, "what": what}})
    if vios:
        out["status"], out["violations"] = VIOLATION, vios
    elif res.inconclusive or not res.complete:
        out["status"], out["detail"] = INCONCLUSIVE, "; ".join(res.notes)[:100]
    else:
        out["status"] = HOLDS
    return out


def _find_range(ast):
    if ast[0] == "inrange":
        return ast
    for x in ast[1:]:
        if isinstance(x, tuple):
            r = _find_range(x)
            if r:
                return r
    return None


def _site(shape, what):
    r = _find_range(shape["ast"]) if shape["kind"] == "range" else None
    if r:
        start, stop, step = r[2:5]
        empty = len(range(start, stop, step)) == 0
        return f"{what}/range start{'<0' if start < 0 else '>=0'} step{'<0' if step < 0 else '>0'}{' empty' if empty else ''}"
    return f"{what}: {exprsem.ast_str(shape['ast'])}"


def concrete_check(shape, row, bind, row2=None):
    """Three-way evaluation with ordinary ints: python callable, real SQLite, plain evaluator."""
    ast = shape["ast"]
    is_pred = shape["kind"] != "expr"
    env = Env()
    env.bind = dict(bind)
    truth = exprsem.py_of_ast(ast, row, bind)
    obj = exprsem.lib_of_ast(ast, env.tags, env.val)
    it = env.engines["it1"]
    full = {env.tags[c]: row[c] for c in COLS}
    try:
        fn = (it.convert_predicate if is_pred else it.convert_column_expression)(obj)
        v = fn(full)
        if (bool(v) if is_pred else v) != truth:
            return True, "iteration-differs", {"iteration": v, "expected": truth}
        if row2 is not None:
            truth2 = exprsem.py_of_ast(ast, row2, bind)
            v2 = fn({env.tags[c]: row2[c] for c in COLS})
            if (bool(v2) if is_pred else v2) != truth2:
                return True, "iteration-differs-on-reuse", {"first row": row, "second row": row2, "iteration": v2, "expected": truth2}
    except Exception as e:  # noqa: BLE001
        return True, f"iteration-raises:{type(e).__name__}", str(e)[:100]
    try:
        tbl, el = _sql_side(env, obj, is_pred)
        sv = sqlmodel.eval_expr_sqlite(el, tbl, row)
    except Exception as e:  # noqa: BLE001
        return True, f"sql-raises:{type(e).__name__}", str(e)[:100]
    if (bool(sv) if is_pred else sv) != truth:
        return True, "sql-differs", {"sqlite": sv, "expected": truth, "sql": str(el)}
    if is_pred:
        import sqlalchemy as sa
        terms = env.engines["sq"].convert_flattened_predicate(obj, {env.tags[c]: tbl.c[c] for c in COLS})
        wv = sqlmodel.eval_expr_sqlite(sa.and_(sa.true(), *terms), tbl, row)
        if bool(wv) != truth:
            return True, "sql-where-terms-differ", {"sqlite": wv, "expected": truth, "terms": [str(t) for t in terms]}
    return False, "", None


def replay(v):
    r = v["replay"]
    shape = {"kind": r["shape"]["kind"], "ast": from_jsonable(r["shape"]["ast"])}
    fails, what, detail = concrete_check(shape, r["row"], r["bind"], r.get("row2"))
    return fails, f"{exprsem.ast_str(shape['ast'])} row={r['row']} bind={r['bind']}: {what or 'agrees'} {detail}"


def describe(tier):
    R, S = (5, 3) if tier == "quick" else (10, 5)
    return {
        "explanation": "Three-way verification condition per expression/predicate shape: the real iteration-engine callable run "
                       "under symx on a symbolic row, the SMT semantics of the SQLAlchemy element returned by the real "
                       "sql.Engine.convert_* (literals stay symbolic inside BindParameter), and an independent AST evaluator must "
                       "agree for all rows/literals in the value box; ranges are enumerated over a (start,stop,step) box with the "
                       "tested value symbolic.  Counterexamples are replayed on the real callable and on a real SQLite.",
        "bounds": {"nesting depth": 2 if tier == "quick" else 4, "values/literals": f"[-{VBOUND},{VBOUND}] (64-bit safety for SQLite replays)",
                   "range start/stop": f"[-{R},{R}]", "range |step|": f"1..{S}"},
        "outside": ["NULLs, non-integer types", "integer overflow in the database", "dialects other than SQLite semantics of % (truncating)"],
        "assumptions": ["sqlmodel.expr is the SQL meaning of the emitted elements (validated against SQLite in replays)"],
    }
