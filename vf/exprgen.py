"""Generators of expression / predicate ASTs over the portable operator set (C12, C13)."""
from __future__ import annotations

import itertools

A, B, C = ("ref", "a"), ("ref", "b"), ("ref", "c")
K, M = ("lit", "$k"), ("lit", "$m")


def expr_pool(depth):
    """Integer expressions up to the given depth."""
    p0 = [A, B, K, ("lit", 0), ("lit", -3)]
    pools = [p0]
    for d in range(depth):
        prev = pools[-1]
        small = prev[:4] if d else prev
        new = [("neg", x) for x in prev]
        for op in ("add", "sub", "mul"):
            for x, y in itertools.product(small, small):
                if op == "mul" and x[0] == "lit" and y[0] == "lit":
                    continue
                new.append((op, x, y))
        seen = set(prev)
        pools.append(prev + [x for x in dict.fromkeys(new) if x not in seen])
    # nested calls in every argument position, siblings referencing other columns on either side
    nested = [("add", A, ("neg", B)), ("add", ("neg", A), B), ("sub", C, ("mul", B, ("lit", 2))), ("mul", ("add", A, B), ("neg", C)),
              ("add", A, ("add", B, C)), ("add", ("add", A, B), C), ("neg", ("add", A, ("neg", B))), ("sub", ("sub", A, K), ("sub", B, C)),
              ("add", C, ("mul", ("neg", A), ("add", B, K))), ("mul", ("lit", 3), ("sub", ("neg", C), A))]
    seen = set(pools[-1])
    return pools[-1] + [x for x in nested if x not in seen]


def atoms():
    return [
        ("plit", True), ("plit", False), ("pref", "a"),
        ("gt", A, K), ("eq", A, B), ("le", ("add", A, B), M), ("ne", ("neg", A), K), ("lt", B, ("mul", A, ("lit", 2))),
        ("ge", ("sub", A, K), B), ("gt", ("add", A, ("neg", B)), K), ("eq", ("sub", C, ("mul", B, ("lit", 2))), A),
        # the literal as first operand
        ("lt", K, A), ("le", ("lit", -1), B), ("gt", M, ("neg", A)), ("ge", ("lit", 3), ("add", A, B)), ("ne", ("lit", 0), A), ("eq", K, B),
        ("inseq", B, (A, K)), ("inseq", A, ()), ("inseq", A, (("lit", 1), ("lit", 1), B)),
        # computed items in a sequence (the columns they read are required columns, too), also as the tested value
        ("inseq", C, (("add", A, ("lit", 1)), B, ("lit", 1))), ("inseq", A, (("neg", B),)), ("inseq", ("add", A, B), (("mul", C, ("lit", 2)), K)),
        ("inrange", A, 1, 6, 2), ("inrange", ("add", A, B), 0, 4, 1), ("inrange", A, 5, 0, -1), ("inrange", B, 6, -2, -3),
        ("inrange", A, 3, 3, 1), ("inrange", A, 2, 5, -1),
    ]


def pred_pool(depth, wide=False):
    """Predicates up to the given nesting depth of NOT/AND/OR (0..3 operands)."""
    p0 = atoms()
    r0 = [("plit", True), ("plit", False), ("gt", A, K), ("pref", "a"), ("eq", A, B)]
    pools = [p0]
    reps = [r0]
    for d in range(depth):
        prev, rep = pools[-1], reps[-1]
        new = [("not", x) for x in prev]
        maxar = 3 if d == 0 else 2
        if wide and d <= 2:
            maxar = 3
        for op in ("and", "or"):
            for ar in range(0, maxar + 1):
                base = rep if ar <= 2 else rep[:(6 if wide else 4)]
                for tup in itertools.product(base, repeat=ar):
                    new.append((op,) + tup)
        seen = set(prev)
        new = [x for x in dict.fromkeys(new) if x not in seen]
        pools.append(prev + new)
        # representatives for the next level: a spread of the new shapes
        nr = [("plit", False), ("gt", A, K), ("not", ("plit", True)), ("not", ("gt", A, K)), ("and",), ("or",),
              ("and", ("plit", False), ("gt", A, K)), ("or", ("plit", True), ("gt", A, K)),
              ("and", ("gt", A, K), ("eq", A, B)), ("or", ("gt", A, K), ("pref", "a")), ("and", ("plit", True)),
              ("or", ("plit", False)),
              # foldable operands that still *read* a column when evaluated (the constant comes last)
              ("and", ("gt", A, K), ("plit", False)), ("or", ("eq", A, B), ("plit", True)),
              # conjunctions whose operands are all trivially true (they flatten to nothing)
              ("and", ("plit", True), ("plit", True)), ("and", ("and",), ("and",))]
        if d >= 1:
            nr = nr[:8] + nr[12:] + [("not", ("and", ("plit", False), ("gt", A, K))), ("not", ("or",)), ("and", ("or",), ("gt", A, K)),
                           ("or", ("and",), ("eq", A, B))]
        reps.append(nr)
    return pools[-1]
