"""Multi-engine program space (three engines, preferred-engine options) for C03, C14, C15, C20."""
from __future__ import annotations

import itertools

from .prog import IllTyped, cols_of

A, B, C, D = ("ref", "a"), ("ref", "b"), ("ref", "c"), ("ref", "d")
LEAVES = {"X": ("it1", ("a", "b", "c")), "S": ("sq", ("a", "b", "c")), "Z": ("sq", ("a", "d")), "Y": ("it1", ("a", "b", "c")),
          "T": ("sq", ("a", "b", "c")), "U": ("it2", ("a", "b", "c")),
          # two relations that share only a non-key column (v), and one that shares a key and a non-key column with them
          "N1": ("sq", ("a", "v")), "N2": ("sq", ("b", "v")), "N3": ("sq", ("a", "v", "w"))}
LEAFCOLS = {k: v[1] for k, v in LEAVES.items()}
ENGINES = ("it1", "it2", "sq")


def option_sets(engines=ENGINES, full=False):
    """None (no preferred engine) plus (engine, backtrack, transfer, require) combinations."""
    out = [None]
    combos = [(True, False, False), (True, True, False), (False, True, False), (True, False, True), (False, False, True),
              (False, False, False)]
    if full:
        combos = list(itertools.product((True, False), repeat=3))
    for e in engines:
        for b, t, r in combos:
            out.append((e, b, t, r))
    return out


def actions(level="std", nested=False):
    """(label, needs(cols) -> bool, make(child, opts, i) -> node) - parameters are named by step index i."""
    acts = []

    def un(label, need, mk):
        acts.append((label, need, mk, True))

    def plain(label, need, mk):
        acts.append((label, need, mk, False))

    un("calc d=a+b", lambda c: {"a", "b"} <= c and "d" not in c, lambda ch, o, i: ("calc", ch, "d", ("add", A, B), o))
    un("calc e=-it(a)", lambda c: "a" in c and "e" not in c, lambda ch, o, i: ("calc", ch, "e", ("rneg", A, "it"), o))
    un("calc e=-none(a)", lambda c: "a" in c and "e" not in c, lambda ch, o, i: ("calc", ch, "e", ("efn", A, "none"), o))
    un("proj -b", lambda c: "b" in c, lambda ch, o, i: ("proj", ch, tuple(sorted(c for c in _c(ch) if c != "b")), o))
    un("proj -d", lambda c: "d" in c, lambda ch, o, i: ("proj", ch, tuple(sorted(c for c in _c(ch) if c != "d")), o))
    un("proj a", lambda c: "a" in c and len(c) > 1, lambda ch, o, i: ("proj", ch, ("a",), o))
    un("proj all", lambda c: True, lambda ch, o, i: ("proj", ch, tuple(sorted(_c(ch))), o))
    un("sel a>k", lambda c: "a" in c, lambda ch, o, i: ("sel", ch, ("gt", A, ("lit", f"$k{i}")), o))
    un("sel b>sq a", lambda c: {"a", "b"} <= c, lambda ch, o, i: ("sel", ch, ("rgt", B, A, "sq"), o))
    un("sel true", lambda c: True, lambda ch, o, i: ("sel", ch, ("plit", True), o))
    un("dedup", lambda c: True, lambda ch, o, i: ("dedup", ch, o))
    un("sort -b,a", lambda c: {"a", "b"} <= c, lambda ch, o, i: ("sort", ch, ((B, False), (A, True)), o))
    un("sort a", lambda c: "a" in c, lambda ch, o, i: ("sort", ch, ((A, True),), o))
    un("sort none", lambda c: True, lambda ch, o, i: ("sort", ch, (), o))
    plain("slice s:e", lambda c: True, lambda ch, o, i: ("slice", ch, f"$s{i}", f"$e{i}"))
    un("slice s:e (apply)", lambda c: True, lambda ch, o, i: ("slice", ch, f"$s{i}", f"$e{i}", o))
    plain("mat", lambda c: True, lambda ch, o, i: ("mat", ch))
    for e in ENGINES:
        plain(f"to {e}", lambda c: True, lambda ch, o, i, e=e: ("xfer", ch, e))
    if nested:
        # engine-restricted functions nested inside unrestricted nodes
        un("calc e=-it(a)+b", lambda c: {"a", "b"} <= c and "e" not in c, lambda ch, o, i: ("calc", ch, "e", ("add", ("rneg", A, "it"), B), o))
        un("sel not(b>sq a)", lambda c: {"a", "b"} <= c, lambda ch, o, i: ("sel", ch, ("not", ("rgt", B, A, "sq")), o))
        un("sel -it(a)>b", lambda c: {"a", "b"} <= c, lambda ch, o, i: ("sel", ch, ("gt", ("rneg", A, "it"), B), o))
    if level == "full":
        un("calc c=a+b", lambda c: {"a", "b"} <= c and "c" not in c, lambda ch, o, i: ("calc", ch, "c", ("add", A, B), o))
        un("sel false", lambda c: True, lambda ch, o, i: ("sel", ch, ("plit", False), o))
        un("proj -c", lambda c: "c" in c and len(c) > 1, lambda ch, o, i: ("proj", ch, tuple(sorted(c for c in _c(ch) if c != "c")), o))
        un("sort -d", lambda c: "d" in c, lambda ch, o, i: ("sort", ch, ((D, False),), o))
    return acts


_COLS_CACHE = {}


def _c(node):
    return cols_of(node, LEAFCOLS)


def params_for(node):
    """Parameter declarations for the "$..." names in a program (slice bounds finite, literals unbounded)."""
    from .prog import params_of

    params, cons = {}, []
    for name in params_of(node):
        if name[1] in "se":
            params[name] = [0, 4]
        else:
            params[name] = [None, None]
    for name in params:
        if name[1] == "s" and ("$e" + name[2:]) in params:
            cons.append([name, "$e" + name[2:]])
    return params, cons
