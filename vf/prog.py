"""Programs (plain nested tuples), their construction through the real public API, the
oracle (`sem_seq`), the interpretation of returned trees (`sem_tree`) and the plain
Python list evaluator used for replays (`pyeval`).

Program nodes:
  ("leaf", name)
  ("calc", child, tag, expr[, opts])        ("proj", child, cols[, opts])
  ("sel", child, pred[, opts])              ("dedup", child[, opts])
  ("sort", child, ((expr, asc), ...)[, opts])
  ("slice", child, start, stop)             start/stop: int | "$name" | None
  ("chain", lhs, rhs)                       ("join", lhs, rhs, pred|None[, (backtrack, transfer)])
  ("mat", child)                            ("xfer", child, engine_name)
opts = (preferred_engine_name|None, backtrack, transfer, require_preferred_engine)
"""
from __future__ import annotations

import dataclasses
import functools
import os

import z3

from . import exprsem, relmodel
from .relmodel import Tab
from .symx import SymInt, Skip, zint

UNARY = ("calc", "proj", "sel", "dedup", "sort", "slice", "mat", "xfer", "tag", "proc", "cust", "xferp", "twice", "tagp", "custr")


@dataclasses.dataclass(frozen=True)
class Tag:
    """Column tag used by every harness (own class: the library only needs the protocol)."""

    qualified_name: str
    is_key: bool = True

    def __repr__(self):
        return self.qualified_name

    def __str__(self):
        return self.qualified_name

    def __hash__(self):
        return int.from_bytes(self.qualified_name.encode(), byteorder="little")


def mk_tags(keys="abcdeiz", nonkeys="vw"):
    t = {k: Tag(k) for k in keys}
    t.update({k: Tag(k, is_key=False) for k in nonkeys})
    return t


class Env:
    """Everything one harness path needs: engines, tags, real leaf relations, oracle tables,
    parameter bindings."""

    def __init__(self, tags=None, symbolic=False):
        from lsst.daf.relation import iteration, sql

        self.symbolic = symbolic  # wrap integer constants as SymInt (hash rule, DESIGN 2.2)

        self.tags = tags or mk_tags()
        HEngine = harness_engine_class()
        self.engines = {
            "it1": HEngine(name="it1"),
            "it2": HEngine(name="it2"),
            "sq": sql.Engine(name="sq"),
        }
        import operator
        for k, eng in self.engines.items():  # engine-specific functions ("efn" nodes): only the declared kind implements them
            eng.functions[exprsem.EFN["sq" if k == "sq" else "it"]] = operator.neg
        self.leaves = {}  # name -> real relation
        self.tables = {}  # name -> Tab
        self.bind = {}  # "$name" -> SymInt | int
        self.metadata = None
        self.sql_mode = False  # SQL determinacy rules in sem_seq (DESIGN 2.4)
        self.count_mode = False  # order of unordered tables is irrelevant (count-only VCs)
        self.expr_memo = {}
        self.history = True  # build() first builds an equal-but-not-identical tree over decoy leaves (see _tree_history)
        self.in_history = False
        self.history_done = {}
        self.decoys = {}

    def processor(self):
        """The Processor (hooks evaluating for real, lazy transfer payloads where the contract allows) behind "proc" nodes."""
        if getattr(self, "_processor", None) is None:
            from . import symproc

            self.proc_log = []
            self.proc_db = symproc.SymDB(self)
            self._processor = symproc.make_processor(self.proc_db, self.proc_log, lazy=True)
        return self._processor

    def val(self, v):
        if isinstance(v, str):
            return self.bind[v]
        if self.symbolic and isinstance(v, int) and not isinstance(v, bool):
            return SymInt(v)
        return v

    # -- leaves -------------------------------------------------------------
    def add_iter_leaf(self, name, cols, rows, engine="it1", kind="seq", min_rows=None, max_rows="exact",
                      payload=None, messages=None):
        """rows: list of dict colname -> value (SymInt/int).  Registers real leaf + oracle table."""
        from lsst.daf.relation import LeafRelation, iteration

        tags = [self.tags[c] for c in cols]
        # a row is a mapping: the order in which it lists its columns carries no meaning, so the rows list them in different orders
        real_rows = [{self.tags[c]: r[c] for c in (cols if i % 2 == 0 else tuple(cols)[::-1])} for i, r in enumerate(rows)]
        if payload is None:
            if kind == "seq":
                payload = iteration.RowSequence(real_rows)
            else:
                key = tuple(t for t in tags)
                payload = iteration.RowMapping(key, {tuple(r[t] for t in key): r for r in real_rows})
        eng = self.engines[engine]
        if messages is not None:
            rel = eng.make_leaf(frozenset(tags), payload=payload, name=name, messages=messages)
        elif min_rows is None and max_rows == "exact":
            rel = eng.make_leaf(frozenset(tags), payload=payload, name=name)
        else:
            rel = LeafRelation(eng, frozenset(tags), payload, name=name,
                               min_rows=0 if min_rows is None else min_rows,
                               max_rows=len(rows) if max_rows == "exact" else max_rows)
        self.leaves[name] = rel
        self.tables[name] = relmodel.leaf_concrete([{c: zint(r[c]) for c in cols} for r in rows], cols)
        return rel

    def add_sql_leaf(self, name, cols, n, min_rows=0, max_rows=None, table=None, extra=()):
        """SQL leaf over a sqlalchemy Table; oracle table has n symbolic slots (unordered).  `extra`: columns the table (and the
        payload's columns_available) offers beyond the relation's own columns."""
        import sqlalchemy as sa
        from lsst.daf.relation import sql

        if self.metadata is None:
            self.metadata = sa.MetaData()
        tags = [self.tags[c] for c in cols]
        ca = {self.tags[c]: sa.Column(c, sa.Integer) for c in tuple(cols) + tuple(extra)}
        tbl = sa.Table(name, self.metadata, *ca.values())
        rel = self.engines["sq"].make_leaf(
            frozenset(tags), payload=sql.Payload(from_clause=tbl, columns_available=ca), name=name,
            min_rows=min_rows, max_rows=max_rows)
        self.leaves[name] = rel
        if table is None:
            table, cons = relmodel.leaf_symbolic(name, cols, n, ordered=False)
        self.tables[name] = table
        return rel

    def add_special_leaf(self, name, kind, engine, cols=()):
        eng = self.engines[engine]
        if kind == "doomed":
            rel = eng.make_doomed_relation(frozenset(self.tags[c] for c in cols), ["doomed by harness"], name=name)
            self.tables[name] = Tab([], cols, engine != "sq")
        else:
            rel = eng.make_join_identity_relation(name=name)
            self.tables[name] = Tab([relmodel.Slot(z3.BoolVal(True), z3.IntVal(0) if engine != "sq" else None, {})],
                                    (), engine != "sq")
        self.leaves[name] = rel
        return rel


# --------------------------------------------------------------------------- build


def _opts_kw(env, opts):
    if not opts:
        return {}
    pe, backtrack, transfer, require = opts
    return dict(preferred_engine=env.engines[pe] if pe else None, backtrack=backtrack, transfer=transfer,
                require_preferred_engine=require)


def lib_expr(env, e):
    """The library object for an expression AST; one object per distinct AST and Env, so that a program which uses the same
    predicate or expression twice hands the *same object* to both calls (as callers do)."""
    try:
        return env.expr_memo[e]
    except KeyError:
        share = env.expr_memo if getattr(env, "share_subexpressions", False) else None
        obj = env.expr_memo[e] = exprsem.lib_of_ast(e, env.tags, env.val, memo=share)
        return obj
    except TypeError:  # unhashable AST
        return exprsem.lib_of_ast(e, env.tags, env.val)


def expression_history(env, *nodes):
    """Earlier history in the same engines (same process): expressions that compare equal to sub-expressions of the
    programs (same function name and arguments) but were declared with other engine restrictions are built and asked which
    engines support them.  Anything the library remembers per *equal* expression is remembered before the tree under test
    is built."""
    for node in nodes:
        for tw in exprsem.restricted_twins(node):
            try:
                obj = exprsem.lib_of_ast(tw, env.tags, env.val)
                for eng in env.engines.values():
                    obj.is_supported_by(eng)
            except Exception:  # noqa: BLE001 - the earlier objects are not the subject
                pass


_OPS = ("leaf", "calc", "proj", "sel", "dedup", "sort", "slice", "chain", "join", "mat", "xfer", "tag", "proc", "cust", "xferp", "twice", "tagp", "custr")
_USER_MARKER = []
_USER_FILTER = []
_HENGINE = []


def user_filter_class():
    """A user-defined RowFilter (documented extension point of UnaryOperation) that keeps every row."""
    if not _USER_FILTER:
        from lsst.daf.relation import RowFilter

        @dataclasses.dataclass(frozen=True)
        class KeepAll(RowFilter):
            def __str__(self):
                return "keepall"

            @property
            def is_empty_invariant(self):
                return True

            @property
            def is_order_dependent(self):
                return False

            def applied_min_rows(self, target):
                return target.min_rows

        _USER_FILTER.append(KeepAll)
    return _USER_FILTER[0]


_USER_REORDER = []


def user_reordering_class():
    """A user-defined Reordering (documented extension point) that reverses the row order: order-dependent, count-invariant."""
    if not _USER_REORDER:
        from lsst.daf.relation import Reordering

        @dataclasses.dataclass(frozen=True)
        class Reverse(Reordering):
            def __str__(self):
                return "reverse"

            @property
            def is_order_dependent(self):
                return True

        _USER_REORDER.append(Reverse)
    return _USER_REORDER[0]


def harness_engine_class():
    """iteration.Engine with the documented hook for custom unary operations implemented the way its docstring suggests
    ("typically [the target] will be passed to execute and the result used to construct a new RowIterable")."""
    if not _HENGINE:
        from lsst.daf.relation import iteration

        class HEngine(iteration.Engine):
            def apply_custom_unary_operation(self, operation, target):
                if isinstance(operation, user_filter_class()):
                    return self.execute(target)
                if isinstance(operation, user_reordering_class()):
                    return iteration.RowSequence(list(self.execute(target))[::-1])
                return super().apply_custom_unary_operation(operation, target)

        _HENGINE.append(HEngine)
    return _HENGINE[0]



def user_marker_class():
    """A do-nothing user-defined marker relation (MarkerRelation is a documented extension point)."""
    if not _USER_MARKER:
        from lsst.daf.relation import MarkerRelation

        @dataclasses.dataclass(frozen=True)
        class UserTag(MarkerRelation):
            def __str__(self):
                return f"tag({self.target})"

        _USER_MARKER.append(UserTag)
    return _USER_MARKER[0]

HISTORY = not os.environ.get("VERIF_NO_HISTORY")
DECLARED_COLS = {}  # leaf name -> the relation's own columns, for leaves whose table / payload offers more (sqlprogs' Wx)
CURRENT_DECOYS = {}  # id(decoy LeafRelation) -> object, of the Env that built last (read by pytree)


def expand_twice(node):
    """("twice", inner) - one operation *object* applied twice in a row - means the same as its template applied twice."""
    inner = node[1]
    return (inner[0], inner) + tuple(inner[2:])


def leaf_names(node, acc=None):
    acc = set() if acc is None else acc
    if isinstance(node, tuple) and node and isinstance(node[0], str) and node[0] in _OPS:
        if node[0] == "leaf":
            acc.add(node[1])
        else:
            for x in node[1:]:
                leaf_names(x, acc)
    return acc


def _decoy_of(env, leaf):
    """A leaf equal to `leaf` as the library compares leaves (engine, name, columns) that had no rows / another table."""
    from lsst.daf.relation import LeafRelation, iteration, sql

    base = leaf if isinstance(leaf, LeafRelation) else getattr(leaf, "skip_to", None)
    if not isinstance(base, LeafRelation) or base.max_rows == 0 or base.is_join_identity:
        return None
    if isinstance(base.engine, sql.Engine):
        import sqlalchemy as sa

        ca = {t: sa.Column(t.qualified_name, sa.Integer) for t in sorted(base.columns, key=lambda t: t.qualified_name)}
        tbl = sa.Table("old_" + base.name, sa.MetaData(), *ca.values())
        d = base.engine.make_leaf(base.columns, payload=sql.Payload(from_clause=tbl, columns_available=ca), name=base.name)
        env.decoys[id(getattr(d, "skip_to", d))] = getattr(d, "skip_to", d)
        return d
    if isinstance(base.engine, iteration.Engine):
        d = LeafRelation(base.engine, base.columns, iteration.RowSequence([]), name=base.name, min_rows=0, max_rows=None)
        env.decoys[id(d)] = d
        return d
    return None


def _tree_history(env, node):
    """Earlier life of the same engine objects (DESIGN 7.2 "histories"): the same factory calls over leaves of the same
    names, engines and columns that were empty / bound to another table then - trees that compare *equal* to the ones under
    test without being them - are made and their metadata read.  Whatever the library remembers per equal relation,
    operation or expression is remembered before the tree under test is built; a decoy leaf that turns up in a tree under
    test evaluates to no rows in sem_tree / pytree."""
    saved = {n: env.leaves[n] for n in leaf_names(node) if n in env.leaves}
    env.in_history = True
    try:
        for n, leaf in saved.items():
            d = _decoy_of(env, leaf)
            if d is not None:
                env.leaves[n] = d
        try:
            r = _build(node, env, {})
            _ = (r.min_rows, r.max_rows, r.columns, r.is_trivial, str(r))
        except Exception:  # noqa: BLE001 - the earlier tree is not the subject
            pass
    finally:
        env.leaves.update(saved)
        env.in_history = False


def build(node, env, memo=None):
    """Build the real relation for a program through the public factory methods (after the equal-tree history)."""
    global CURRENT_DECOYS
    if HISTORY and env.history and not env.in_history and node[0] != "leaf" and id(node) not in env.history_done:
        env.history_done[id(node)] = node
        CURRENT_DECOYS = env.decoys
        _tree_history(env, node)
    return _build(node, env, {} if memo is None else memo)


def _build(node, env, memo):
    from lsst.daf.relation import SortTerm

    build = _build  # noqa: F841 - the recursive calls below stay inside the unwrapped builder
    key = id(node)
    if key in memo:
        return memo[key]
    op = node[0]
    if op == "leaf":
        r = env.leaves[node[1]]
    elif op == "calc":
        r = build(node[1], env, memo).with_calculated_column(
            env.tags[node[2]], lib_expr(env, node[3]), **_opts_kw(env, node[4] if len(node) > 4 else None))
    elif op == "proj":
        r = build(node[1], env, memo).with_only_columns(
            frozenset(env.tags[c] for c in node[2]), **_opts_kw(env, node[3] if len(node) > 3 else None))
    elif op == "sel":
        r = build(node[1], env, memo).with_rows_satisfying(
            lib_expr(env, node[2]), **_opts_kw(env, node[3] if len(node) > 3 else None))
    elif op == "dedup":
        r = build(node[1], env, memo).without_duplicates(**_opts_kw(env, node[2] if len(node) > 2 else None))
    elif op == "sort":
        terms = [SortTerm(lib_expr(env, e), asc) for e, asc in node[2]]
        r = build(node[1], env, memo).sorted(terms, **_opts_kw(env, node[3] if len(node) > 3 else None))
    elif op == "slice":
        start, stop = node[2], node[3]
        if len(node) > 4 and node[4]:
            from lsst.daf.relation import Slice

            r = Slice(0 if start is None else env.val(start), None if stop is None else env.val(stop)).apply(
                build(node[1], env, memo), **_opts_kw(env, node[4]))
        else:
            r = build(node[1], env, memo)[
                (None if start is None else env.val(start)):(None if stop is None else env.val(stop))]
    elif op == "chain":
        r = build(node[1], env, memo).chain(build(node[2], env, memo))
    elif op == "join":
        pred = lib_expr(env, node[3]) if node[3] is not None else None
        kw = {}
        if len(node) > 4 and node[4] == "apply":
            # the operation-level entry point: an unresolved Join applied directly to both operands
            from lsst.daf.relation import Join

            r = (Join(pred) if pred is not None else Join()).apply(build(node[1], env, memo), build(node[2], env, memo))
            memo[key] = r
            return r
        if len(node) > 4 and node[4]:
            kw = dict(backtrack=node[4][0], transfer=node[4][1])
        r = build(node[1], env, memo).join(build(node[2], env, memo), pred, **kw)
    elif op == "mat":
        r = build(node[1], env, memo).materialized(name=node[2] if len(node) > 2 else None)
    elif op == "xfer":
        r = build(node[1], env, memo).transferred_to(env.engines[node[2]])
    elif op == "xferp":
        # the payload-attaching form of the documented entry point Engine.transfer (what a Processor-style rebuild of a tree uses)
        from lsst.daf.relation import iteration

        t = build(node[1], env, memo)
        if node[2] == "sq":
            import sqlalchemy as sa
            from lsst.daf.relation import sql

            ca = {c: sa.Column(c.qualified_name, sa.Integer) for c in t.columns}
            pl = sql.Payload(from_clause=sa.Table(f"upload_{len(memo)}", sa.MetaData(), *ca.values()), columns_available=ca)
        else:
            pl = iteration.RowSequence([])
        r = env.engines[node[2]].transfer(t, payload=pl)
    elif op == "tag":
        r = user_marker_class()(target=build(node[1], env, memo))
    elif op == "tagp":
        # a user-defined marker to which its owner attached a (lazy) payload: what the iteration engine hands out for the target
        t = build(node[1], env, memo)
        r = user_marker_class()(target=t)
        r.attach_payload(t.engine.execute(t))
    elif op == "twice":
        # the operation-level entry point with one operation instance used for both applications (operations are values: callers
        # keep and re-use them)
        the_op = make_op(node[1], env)
        r = the_op.apply(the_op.apply(build(node[1][1], env, memo)))
    elif op == "custr":
        r = user_reordering_class()().apply(build(node[1], env, memo))
    elif op == "cust":
        r = user_filter_class()().apply(build(node[1], env, memo))
    elif op == "proc":
        # the child tree as returned by an earlier Processor.process (transfers carry payloads; lazy ones where the hook may)
        r = env.processor().process(build(node[1], env, memo))
    else:
        raise TypeError(f"bad program node {node!r}")
    memo[key] = r
    return r


# --------------------------------------------------------------------------- oracle


def sem_seq(node, env, prefer="l"):
    """Direct evaluation of the applied operation sequence over the oracle tables.

    With ``env.sql_mode`` the determinacy bookkeeping of DESIGN 2.4 is applied: order exists only
    after a sort, a slice needs a determinate order (else Skip), deduplication after a projection
    that dropped a column loses the order."""
    t = _sem_seq(node, env, prefer)
    return t


def _covers_all(terms, cols):
    bare = {e[1] for e, _ in terms if e[0] == "ref"}
    return set(cols) <= bare


def _sem_seq(node, env, prefer):
    op = node[0]
    bind = env.bind
    sqlm = getattr(env, "sql_mode", False)
    if op == "twice":
        return _sem_seq(expand_twice(node), env, prefer)
    if op == "custr":
        return relmodel.reverse(_sem_seq(node[1], env, prefer))
    if op == "leaf":
        t = env.tables[node[1]]
        if node[1] in DECLARED_COLS and set(t.cols) > set(DECLARED_COLS[node[1]]):
            t = relmodel.project(t, DECLARED_COLS[node[1]])  # the table offers more columns than the relation has
        return t
    if op in ("mat", "xfer", "tag", "proc", "cust", "xferp", "tagp"):
        return _sem_seq(node[1], env, prefer)
    if op == "chain":
        a, b = _sem_seq(node[1], env, prefer), _sem_seq(node[2], env, prefer)
        if sqlm:
            a, b = relmodel.unordered(a), relmodel.unordered(b)
        return relmodel.chain(a, b)
    if op == "join":
        a, b = _sem_seq(node[1], env, prefer), _sem_seq(node[2], env, prefer)
        common = [c for c in a.cols & b.cols if env.tags[c].is_key]
        pred = (lambda v: exprsem.z3_of_ast(node[3], v, bind)) if node[3] is not None else None
        return relmodel.join(a, b, common, pred, prefer)
    t = _sem_seq(node[1], env, prefer)
    if op == "calc":
        r = relmodel.calc(t, node[2], lambda v: exprsem.z3_of_ast(node[3], v, bind))
    elif op == "proj":
        r = relmodel.project(t, node[2])
        r.det, r.dropped, r.sliced = t.det, t.dropped or (set(node[2]) != set(t.cols)), t.sliced
        r.okeys = t.okeys
        return r
    elif op == "sel":
        r = relmodel.select(t, lambda v: exprsem.z3_of_ast(node[2], v, bind))
    elif op == "dedup":
        if sqlm and t.ordered and not (t.det and not t.dropped):
            t = relmodel.unordered(t)
        r = relmodel.dedup(t)
    elif op == "sort":
        r = relmodel.sort(t, [((lambda v, e=e: exprsem.z3_of_ast(e, v, bind)), asc) for e, asc in node[2]])
        if sqlm and node[2]:
            # sorts compose stably (the later terms first, then the order that was there): the composed order is total as soon
            # as the bare columns among all those terms cover the relation's columns
            keep = t.ordered and not t.dropped and not t.sliced
            acc = frozenset(e[1] for e, _ in node[2] if e[0] == "ref") | (t.okeys if keep else frozenset())
            cov = set(t.cols) <= acc
            r.det = cov or (keep and t.det)
            r.dropped = False if cov else t.dropped
            r.sliced = False if cov else t.sliced
            r.okeys = acc
            return r
        if sqlm and not node[2]:
            r = t
    elif op == "slice":
        if node[3] == 0 and not isinstance(node[3], bool) and node[2] in (0, None):
            r = Tab([relmodel.Slot(z3.BoolVal(False), (z3.IntVal(0) if t.ordered else None), s_.v) for s_ in t.slots], t.cols, t.ordered)
            r.det, r.dropped, r.sliced = t.det, t.dropped, True
            return r
        if not t.ordered:
            if not env.count_mode:
                raise Skip("indeterminate: slice of an unordered relation")
            t = relmodel.index_order(t)
        elif sqlm and not t.det and not env.count_mode:
            raise Skip("indeterminate: slice over a sort that does not order the rows totally")
        start = z3.IntVal(0) if node[2] is None else exprsem.zval(node[2], bind)
        stop = None if node[3] is None else exprsem.zval(node[3], bind)
        r = relmodel.slice_(t, start, stop)
        r.det, r.dropped, r.sliced = t.det, t.dropped, True
        r.okeys = t.okeys
        return r
    else:
        raise TypeError(f"bad program node {node!r}")
    r.det, r.dropped, r.sliced = t.det, t.dropped, t.sliced
    r.okeys = t.okeys
    return r


def shared_nonkey(node, env):
    """True if some join in the program has a non-key column exposed by both operands."""
    def cols(n):
        op = n[0]
        if op == "leaf":
            return frozenset(env.tables[n[1]].cols)
        if op == "chain":
            return cols(n[1])
        if op == "join":
            a, b = cols(n[1]), cols(n[2])
            if any(not env.tags[c].is_key for c in a & b):
                raise _Shared()
            return a | b
        c = cols(n[1])
        if op == "calc":
            return c | {n[2]}
        if op == "proj":
            return frozenset(n[2])
        return c

    class _Shared(Exception):
        pass

    try:
        cols(node)
    except _Shared:
        return True
    return False


def sem_tree(rel, env, prefer="r"):
    """Interpret a tree the library returned by walking the real node objects."""
    from lsst.daf.relation import (
        BinaryOperationRelation, Calculation, Chain, Deduplication, Join, LeafRelation, MarkerRelation,
        Projection, Selection, Slice, Sort, UnaryOperationRelation,
    )

    if isinstance(rel, LeafRelation):
        t = getattr(env, "tables_by_id", {}).get(id(rel))  # two leaves may compare equal (same name) and still hold other rows
        if t is None:
            t = env.tables[rel.name]
        own = {c.qualified_name for c in rel.columns}
        if set(t.cols) > own:  # the table behind the leaf offers more columns than the relation has
            t = relmodel.project(t, sorted(own))
        if id(rel) in env.decoys:  # a leaf of the earlier, equal tree: it had no rows
            return Tab([], t.cols, t.ordered)
        return t
    if isinstance(rel, MarkerRelation):
        return sem_tree(rel.target, env, prefer)
    if isinstance(rel, BinaryOperationRelation):
        a, b = sem_tree(rel.lhs, env, prefer), sem_tree(rel.rhs, env, prefer)
        o = rel.operation
        if isinstance(o, Chain):
            return relmodel.chain(a, b)
        if isinstance(o, Join):
            common = [t.qualified_name for t in o.common_columns]
            if not (set(common) <= a.cols and set(common) <= b.cols):
                raise IllFormed(f"join node on {sorted(common)} over operands with columns {sorted(a.cols)} / {sorted(b.cols)}")
            need = {t.qualified_name for t in o.predicate.columns_required}
            if not need <= (a.cols | b.cols):
                raise IllFormed(f"join predicate requires {sorted(need - (a.cols | b.cols))}")
            pred = lambda v: exprsem.z3_of_lib(o.predicate, v)  # noqa: E731 - never the library's own folding (as_trivial)
            return relmodel.join(a, b, common, pred, prefer)
        raise TypeError(f"unexpected binary operation node {o!r}")
    if isinstance(rel, UnaryOperationRelation):
        t = sem_tree(rel.target, env, prefer)
        return apply_lib_op(t, rel.operation, count_mode=env.count_mode)
    raise TypeError(f"unexpected relation node {rel!r}")


class IllFormed(Exception):
    pass


def tree_problem(rel, seen=None):
    """Node-local well-formedness of a tree the library returned (concrete twin of the IllFormed checks in sem_tree):
    -> None or a description."""
    from lsst.daf.relation import BinaryOperationRelation, Calculation, Join, MarkerRelation, UnaryOperationRelation

    seen = set() if seen is None else seen
    if id(rel) in seen:
        return None
    seen.add(id(rel))
    if isinstance(rel, MarkerRelation):
        return tree_problem(rel.target, seen)
    if isinstance(rel, BinaryOperationRelation):
        o = rel.operation
        if isinstance(o, Join):
            cc = set(o.common_columns)
            if not (cc <= set(rel.lhs.columns) and cc <= set(rel.rhs.columns)):
                return f"join node on {sorted(map(str, cc))} over operands with columns {sorted(map(str, rel.lhs.columns))} / {sorted(map(str, rel.rhs.columns))}"
            if not set(o.predicate.columns_required) <= (set(rel.lhs.columns) | set(rel.rhs.columns)):
                return f"join predicate {o.predicate} requires columns its operands do not have"
        return tree_problem(rel.lhs, seen) or tree_problem(rel.rhs, seen)
    if isinstance(rel, UnaryOperationRelation):
        o = rel.operation
        need = set(o.columns_required)
        if not need <= set(rel.target.columns):
            return f"{o} requires {sorted(map(str, need - set(rel.target.columns)))} not in its target"
        if isinstance(o, Calculation) and o.tag in rel.target.columns:
            return f"{o}: tag already present in its target"
        return tree_problem(rel.target, seen)
    return None


def apply_lib_op(t, o, strict=False, count_mode=False):
    """Apply a real UnaryOperation object to an oracle table."""
    try:
        return _apply_lib_op(t, o, strict, count_mode)
    except KeyError as e:
        # the operation's expressions read a column the table lacks although its declared columns_required (code under test) fit
        raise IllFormed(f"{o} reads column {e} that is not among {sorted(t.cols)}")


def _apply_lib_op(t, o, strict=False, count_mode=False):
    from lsst.daf.relation import Calculation, Deduplication, Identity, Projection, Selection, Slice, Sort

    req = {c.qualified_name for c in o.columns_required}
    if not req <= t.cols:
        raise IllFormed(f"{o} requires {sorted(req - t.cols)} not in {sorted(t.cols)}")
    if isinstance(o, Identity) or (_USER_FILTER and isinstance(o, _USER_FILTER[0])):
        return t
    if _USER_REORDER and isinstance(o, _USER_REORDER[0]):
        return relmodel.reverse(t)
    if isinstance(o, Calculation):
        if strict and o.tag.qualified_name in t.cols:
            raise IllFormed(f"{o}: tag already present")
        return relmodel.calc(t, o.tag.qualified_name, lambda v: exprsem.z3_of_lib(o.expression, v))
    if isinstance(o, Projection):
        return relmodel.project(t, [c.qualified_name for c in o.columns])
    if isinstance(o, Selection):
        return relmodel.select(t, lambda v: exprsem.z3_of_lib(o.predicate, v))
    if isinstance(o, Deduplication):
        return relmodel.dedup(t)
    if isinstance(o, Sort):
        return relmodel.sort(t, [((lambda v, e=term.expression: exprsem.z3_of_lib(e, v)), term.ascending)
                                 for term in o.terms])
    if isinstance(o, Slice):
        if not t.ordered:
            if not count_mode:
                raise Skip("slice of an unordered relation is indeterminate")
            t = relmodel.index_order(t)
        return relmodel.slice_(t, zint(o.start), None if o.stop is None else zint(o.stop))
    raise TypeError(f"unexpected unary operation node {o!r}")


# --------------------------------------------------------------------------- plain python evaluator


def pyeval(node, leafrows, bind, tags, prefer="l"):
    """Evaluate a program over concrete leaf rows (dict colname -> int) with ordinary Python."""
    op = node[0]
    if op == "twice":
        return pyeval(expand_twice(node), leafrows, bind, tags, prefer)
    if op == "custr":
        return pyeval(node[1], leafrows, bind, tags, prefer)[::-1]
    if op == "leaf":
        if node[1] in DECLARED_COLS and all(set(r) > set(DECLARED_COLS[node[1]]) for r in leafrows[node[1]]):
            return [{c: r[c] for c in DECLARED_COLS[node[1]]} for r in leafrows[node[1]]]
        return [dict(r) for r in leafrows[node[1]]]
    if op in ("mat", "xfer", "tag", "proc", "cust", "xferp", "tagp"):
        return pyeval(node[1], leafrows, bind, tags, prefer)
    if op == "chain":
        return pyeval(node[1], leafrows, bind, tags, prefer) + pyeval(node[2], leafrows, bind, tags, prefer)
    if op == "join":
        a, b = pyeval(node[1], leafrows, bind, tags, prefer), pyeval(node[2], leafrows, bind, tags, prefer)
        out = []
        for x in a:
            for y in b:
                common = [c for c in set(x) & set(y) if tags[c].is_key]
                if all(x[c] == y[c] for c in common):
                    v = {**y, **x} if prefer == "l" else {**x, **y}
                    if node[3] is None or exprsem.py_of_ast(node[3], v, bind):
                        out.append(v)
        return out
    rows = pyeval(node[1], leafrows, bind, tags, prefer)
    if op == "calc":
        return [{**r, node[2]: exprsem.py_of_ast(node[3], r, bind)} for r in rows]
    if op == "proj":
        return [{c: r[c] for c in node[2]} for r in rows]
    if op == "sel":
        return [r for r in rows if exprsem.py_of_ast(node[2], r, bind)]
    if op == "dedup":
        out = []
        for r in rows:
            if r not in out:
                out.append(r)
        return out
    if op == "sort":
        def cmp(x, y):
            for e, asc in node[2]:
                kx, ky = exprsem.py_of_ast(e, x, bind), exprsem.py_of_ast(e, y, bind)
                if kx != ky:
                    return (-1 if kx < ky else 1) * (1 if asc else -1)
            return 0
        return sorted(rows, key=functools.cmp_to_key(cmp))
    if op == "slice":
        start = 0 if node[2] is None else (bind[node[2]] if isinstance(node[2], str) else node[2])
        stop = None if node[3] is None else (bind[node[3]] if isinstance(node[3], str) else node[3])
        return [r for i, r in enumerate(rows) if i >= start and (stop is None or i < stop)]
    raise TypeError(f"bad program node {node!r}")


# --------------------------------------------------------------------------- formatting


def fmt(node):
    op = node[0]
    if op == "twice":
        return fmt(expand_twice(node)) + " (one operation object applied twice)"
    if op == "leaf":
        return node[1]
    if op == "calc":
        return f"{fmt(node[1])}.calc[{node[2]}={exprsem.ast_str(node[3])}]" + _fo(node, 4)
    if op == "proj":
        return f"{fmt(node[1])}.proj[{','.join(node[2])}]" + _fo(node, 3)
    if op == "sel":
        return f"{fmt(node[1])}.sel[{exprsem.ast_str(node[2])}]" + _fo(node, 3)
    if op == "dedup":
        return f"{fmt(node[1])}.dedup" + _fo(node, 2)
    if op == "sort":
        ts = ",".join(("" if asc else "-") + exprsem.ast_str(e) for e, asc in node[2])
        return f"{fmt(node[1])}.sort[{ts}]" + _fo(node, 3)
    if op == "slice":
        return f"{fmt(node[1])}[{'' if node[2] is None else node[2]}:{'' if node[3] is None else node[3]}]" + _fo(node, 4)
    if op == "chain":
        return f"({fmt(node[1])} U {fmt(node[2])})"
    if op == "join":
        p = "" if node[3] is None else f" on {exprsem.ast_str(node[3])}"
        return f"({fmt(node[1])} JOIN {fmt(node[2])}{p})"
    if op == "mat":
        return f"{fmt(node[1])}.mat"
    if op == "xfer":
        return f"{fmt(node[1])}.to[{node[2]}]"
    if op == "tag":
        return f"{fmt(node[1])}.tag"
    if op == "tagp":
        return f"{fmt(node[1])}.tag(with lazy payload)"
    if op == "xferp":
        return f"{fmt(node[1])}.to[{node[2]} with payload]"
    if op == "proc":
        return f"{fmt(node[1])}.processed"
    if op == "cust":
        return f"{fmt(node[1])}.keepall"
    if op == "custr":
        return f"{fmt(node[1])}.reverse"
    return repr(node)


def _fo(node, i):
    if len(node) > i and node[i]:
        pe, b, t, r = node[i]
        return f"@{pe}{'b' if b else ''}{'t' if t else ''}{'r' if r else ''}"
    return ""


def ops_of(node):
    """Operation-type sequence (post-order) of a program - used for site strings."""
    op = node[0]
    if op == "twice":
        return ops_of(node[1]) + [node[1][0] + "(same object)"]
    if op == "leaf":
        return []
    if op in ("chain", "join"):
        return ops_of(node[1]) + ops_of(node[2]) + [op]
    return ops_of(node[1]) + [op]


def params_of(node):
    """All "$name" parameters mentioned by a program."""
    out = []

    def walk(x):
        if isinstance(x, str) and x.startswith("$"):
            out.append(x)
        elif isinstance(x, (tuple, list)):
            for y in x:
                walk(y)

    walk(node)
    return sorted(set(out))


def to_jsonable(x):
    if isinstance(x, (tuple, list)):
        return [to_jsonable(y) for y in x]
    if isinstance(x, dict):
        return {str(k): to_jsonable(v) for k, v in x.items()}
    if isinstance(x, (frozenset, set)):
        return sorted(to_jsonable(y) for y in x)
    return x


def from_jsonable(x):
    if isinstance(x, list):
        return tuple(from_jsonable(y) for y in x)
    return x


# --------------------------------------------------------------------------- typing of programs


class IllTyped(Exception):
    pass


def cols_of(node, leafcols):
    """Columns of a program if it is well-typed (every required column present, new tags fresh,
    chain operands with equal columns); raises IllTyped otherwise."""
    op = node[0]
    if op == "twice":
        return cols_of(expand_twice(node), leafcols)
    if op == "leaf":
        return frozenset(leafcols[node[1]])
    if op in ("mat", "xfer", "tag", "proc", "cust", "xferp", "tagp", "custr"):
        return cols_of(node[1], leafcols)
    if op == "chain":
        a, b = cols_of(node[1], leafcols), cols_of(node[2], leafcols)
        if a != b:
            raise IllTyped("chain columns differ")
        return a
    if op == "join":
        a, b = cols_of(node[1], leafcols), cols_of(node[2], leafcols)
        if node[3] is not None and not exprsem.ast_columns(node[3]) <= (a | b):
            raise IllTyped("join predicate columns")
        return a | b
    c = cols_of(node[1], leafcols)
    if op == "calc":
        if not exprsem.ast_columns(node[3]) <= c:
            raise IllTyped("calc needs missing column")
        if node[2] in c:
            raise IllTyped("calc tag exists")
        if not exprsem.ast_columns(node[3]):
            raise IllTyped("calc without columns")
        return c | {node[2]}
    if op == "proj":
        if not set(node[2]) <= c:
            raise IllTyped("proj missing column")
        return frozenset(node[2])
    if op == "sel":
        if not exprsem.ast_columns(node[2]) <= c:
            raise IllTyped("sel missing column")
        return c
    if op == "sort":
        for e, _ in node[2]:
            if not exprsem.ast_columns(e) <= c:
                raise IllTyped("sort missing column")
        return c
    if op in ("dedup", "slice"):
        return c
    raise TypeError(node)


# --------------------------------------------------------------------------- concrete interpretation of a returned tree


def py_of_lib(e, row):
    """Evaluate a real expression object on a concrete row (dict qualified_name -> int) in plain Python."""
    from lsst.daf.relation import (
        ColumnExpressionSequence, ColumnFunction, ColumnInContainer, ColumnLiteral, ColumnRangeLiteral,
        ColumnReference, LogicalAnd, LogicalNot, LogicalOr, PredicateFunction, PredicateLiteral, PredicateReference,
    )
    import operator

    if isinstance(e, ColumnLiteral):
        return e.value
    if isinstance(e, ColumnReference):
        return row[e.tag.qualified_name]
    if isinstance(e, (ColumnFunction, PredicateFunction)):
        name = "__neg__" if e.name in exprsem.EFN.values() else e.name
        return getattr(operator, name)(*[py_of_lib(a, row) for a in e.args])
    if isinstance(e, PredicateLiteral):
        return bool(e.value)
    if isinstance(e, PredicateReference):
        return row[e.tag.qualified_name] != 0
    if isinstance(e, LogicalNot):
        return not py_of_lib(e.operand, row)
    if isinstance(e, LogicalAnd):
        return all(py_of_lib(o, row) for o in e.operands)
    if isinstance(e, LogicalOr):
        return any(py_of_lib(o, row) for o in e.operands)
    if isinstance(e, ColumnInContainer):
        x = py_of_lib(e.item, row)
        if isinstance(e.container, ColumnRangeLiteral):
            return x in e.container.value
        return any(x == py_of_lib(i, row) for i in e.container.items)
    raise TypeError(e)


def py_apply_lib_op(rows, o):
    try:
        return _py_apply_lib_op(rows, o)
    except KeyError as e:
        raise IllFormed(f"{o} reads column {e} that its input rows lack")


def _py_apply_lib_op(rows, o):
    from lsst.daf.relation import Calculation, Deduplication, Identity, Projection, Selection, Slice, Sort

    if isinstance(o, Identity) or (_USER_FILTER and isinstance(o, _USER_FILTER[0])):
        return rows
    if _USER_REORDER and isinstance(o, _USER_REORDER[0]):
        return rows[::-1]
    if isinstance(o, Calculation):
        return [{**r, o.tag.qualified_name: py_of_lib(o.expression, r)} for r in rows]
    if isinstance(o, Projection):
        return [{c.qualified_name: r[c.qualified_name] for c in o.columns} for r in rows]
    if isinstance(o, Selection):
        return [r for r in rows if py_of_lib(o.predicate, r)]
    if isinstance(o, Deduplication):
        out = []
        for r in rows:
            if r not in out:
                out.append(r)
        return out
    if isinstance(o, Sort):
        def cmp(x, y):
            for t in o.terms:
                kx, ky = py_of_lib(t.expression, x), py_of_lib(t.expression, y)
                if kx != ky:
                    return (-1 if kx < ky else 1) * (1 if t.ascending else -1)
            return 0
        return sorted(rows, key=functools.cmp_to_key(cmp))
    if isinstance(o, Slice):
        return rows[o.start:o.stop]
    raise TypeError(o)


def pytree(rel, leafrows, prefer="r"):
    """Plain-Python meaning of a tree the library returned (concrete replay of sem_tree)."""
    from lsst.daf.relation import BinaryOperationRelation, Chain, Join, LeafRelation, MarkerRelation, UnaryOperationRelation

    if isinstance(rel, LeafRelation):
        if id(rel) in CURRENT_DECOYS:
            return []
        own = {c.qualified_name for c in rel.columns}
        mine = leafrows.get(("id", id(rel)), None)
        return [{k: v for k, v in r.items() if k in own} if set(r) > own else dict(r) for r in (leafrows[rel.name] if mine is None else mine)]
    if isinstance(rel, MarkerRelation):
        return pytree(rel.target, leafrows, prefer)
    if isinstance(rel, BinaryOperationRelation):
        a, b = pytree(rel.lhs, leafrows, prefer), pytree(rel.rhs, leafrows, prefer)
        if isinstance(rel.operation, Chain):
            return a + b
        o = rel.operation
        out = []
        for x in a:
            for y in b:
                if all(x[c.qualified_name] == y[c.qualified_name] for c in o.common_columns):
                    v = {**y, **x} if prefer == "l" else {**x, **y}
                    if py_of_lib(o.predicate, v):
                        out.append(v)
        return out
    if isinstance(rel, UnaryOperationRelation):
        return py_apply_lib_op(pytree(rel.target, leafrows, prefer), rel.operation)
    raise TypeError(rel)


def add_abstract_leaf(env, name, cols, engine, table, min_rows=0, max_rows=None):
    """A real leaf whose payload is never evaluated (tree-level checks) bound to an oracle table."""
    from lsst.daf.relation import LeafRelation, iteration

    if engine == "sq":
        return env.add_sql_leaf(name, cols, 0, min_rows=min_rows, max_rows=max_rows, table=table)
    tags = frozenset(env.tags[c] for c in cols)
    rel = LeafRelation(env.engines[engine], tags, iteration.RowSequence([]), name=name, min_rows=min_rows,
                       max_rows=max_rows)
    env.leaves[name] = rel
    env.tables[name] = table
    return rel


def make_op(node, env):
    """Real UnaryOperation object for a unary template node (the child slot node[1] is ignored)."""
    from lsst.daf.relation import Calculation, Deduplication, Projection, Selection, Slice, Sort, SortTerm

    op = node[0]
    if op == "calc":
        return Calculation(env.tags[node[2]], lib_expr(env, node[3]))
    if op == "proj":
        return Projection(frozenset(env.tags[c] for c in node[2]))
    if op == "sel":
        return Selection(lib_expr(env, node[2]))
    if op == "dedup":
        return Deduplication()
    if op == "sort":
        return Sort(tuple(SortTerm(lib_expr(env, e), asc) for e, asc in node[2]))
    if op == "slice":
        return Slice(0 if node[2] is None else env.val(node[2]), None if node[3] is None else env.val(node[3]))
    raise TypeError(node)
