check("C04", "other",
      "Bounded symbolic verification: the real commute() of every ordered pair of operation templates (incl. Identity and "
      "PartialJoin) is executed under symx; the returned commutator is interpreted by the relmodel oracle on a target of N "
      "symbolic rows (arbitrary order, duplicates) and z3 decides sequence equality with 'existing then new'.",
      BSV, "3/C04")
