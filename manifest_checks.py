check("C04", "other",
      "Bounded symbolic verification: the real commute() of every ordered pair of operation templates (incl. Identity and "
      "PartialJoin) is executed under symx; the returned commutator is interpreted by the relmodel oracle on a target of N "
      "symbolic rows (arbitrary order, duplicates) and z3 decides sequence equality with 'existing then new'.",
      BSV, "3/C04")
check("C13", "other",
      "Bounded symbolic verification over predicate/expression shapes: as_trivial, flatten_logical_and, Selection "
      "normalisation and columns_required sufficiency are decided by z3 for all integer rows and literals (unbounded) per shape; "
      "shapes enumerated to a stated nesting depth.", BSV, "3/C13")
check("C12", "other",
      "Three-way bounded symbolic verification per expression shape: real iteration callable (under symx), SMT semantics of the "
      "real SQL translation, and an independent evaluator agree for all rows/literals in the value box; ranges enumerated over "
      "a (start,stop,step) box with symbolic tested value; counterexamples replayed on SQLite.", BSV + " and the sqlmodel SQL semantics", "3/C12")
check("C06", "other",
      "Bounded symbolic verification: applied_min_rows/applied_max_rows/is_join_identity/is_trivial are executed on symbolic "
      "declared leaf bounds (unbounded integers) for all programs up to the stated depth in both engines; z3 decides "
      "min_rows <= count <= max_rows, column sets and flag implications against direct evaluation over symbolic leaf tables, "
      "and against the row count of the SQL the real engine compiles (SMT semantics of the statement).",
      BSV, "3/C06")
check("C19", "other",
      "SMT string encoding regenerated from the AST of get_relation_name: z3 (and cvc5 in the thorough tier) shows two arbitrary "
      "calls cannot collide given distinct uuid4 values, with the counter rendering unconstrained (covers every interleaving), and "
      "that the prefix is a prefix; translator validated against the real function; sat answers replayed sequentially, on all "
      "two-thread schedules with <= 2 pre-emptions at line granularity inside the real function, and under thread stress.",
      "source-to-SMT (string theory) translation of the real function, z3/cvc5 unsat queries", "3/C19")
check("C01", "other",
      "Bounded symbolic execution of the real iteration engine: execute(), all RowIterable classes and the factory path run on "
      "symbolic row values, literals and slice bounds; every path of every program shape (depth 1-2 exhaustive over templates, "
      "deeper curated; every leaf length up to N; sequence/mapping payloads; exact/loose declared bounds; chains, "
      "materializations, iteration-to-iteration transfers) is compared by z3 with the oracle's ordered row list.", BSV, "3/C01")
check("C16", "other",
      "Bounded symbolic verification: Diagnostics.run executes on trees of both engines with a harness executor that returns the "
      "symbolic truth, so the real code forks; z3 decides doomed <=> no rows (with executor) / doomed => no rows (without) for all "
      "leaf contents within the slot bound.", BSV, "3/C16")
check("C18", "other",
      "Bounded symbolic execution of execute() and three iterations of its result over counting leaf payloads with symbolic row "
      "values: every value-dependent path is taken; laziness / single-pass counters are path assertions, equality of repeated "
      "iterations is decided by z3.", BSV, "3/C18")
check("C02", "translation_validation",
      "Translation validation with an SMT back end: the real SQL engine's output AST for every program shape is interpreted by an "
      "SMT semantics over symbolic tables and z3 decides multiset equality with direct evaluation for all table contents within "
      "the slot bound and all parameter values; the SQL model itself is validated against SQLite on every decided program.",
      BSV + " and sqlmodel (SMT semantics of the emitted SQLAlchemy AST)", "3/C02")
check("C11", "translation_validation",
      "Sequence-semantics translation validation of the real compiled statements for all sort-containing programs of the C02 "
      "space (z3 decides ordered equality for all table contents within the slot bound and all slice bounds), plus path "
      "assertions that buried unsliced sorts are refused and nothing is refused spuriously; statements without outer ORDER BY are "
      "run on SQLite under both scan orders; SQL-side trees downstream of a transfer are also compiled after a real Processor "
      "rebuilt them.", BSV + " and sqlmodel (ORDER BY / LIMIT / OFFSET / DISTINCT semantics)", "3/C11")
check("C08", "other",
      "Bounded symbolic exploration of the compile pipeline's control flow: every accepted program shape is compiled by the real "
      "engine with symbolic parameters; on each path (z3-feasible parameter region) compilation must return, the statement's "
      "column references must resolve unambiguously (sqlmodel), and a concrete instantiation from the path's z3 model must be "
      "accepted by a real SQLite.", "bounded symbolic execution (symx+z3 path enumeration) of the real compiler + per-path SQLite acceptance",
      "3/C08")
check("C17", "translation_validation",
      "Path assertions (fixed point of conform, marker coherence, is_compound) on every path of every API-built SQL program, and "
      "SMT-decided content preservation of conform() and of compilation for raw trees assembled without the engine's help, for "
      "all table contents within the slot bound.", BSV + " and sqlmodel", "3/C17")
check("C14", "other",
      "Bounded exhaustive exploration under symx of multi-engine programs (all preferred-engine option combinations, three "
      "engines, restricted column functions): on every z3-feasible path of every program the factory either raises the documented "
      "class or returns a tree whose every node passes the invariant walk; documented no-op calls return self.",
      "bounded symbolic execution (symx+z3 path enumeration) of the real factories + invariant walk of every returned tree", "3/C14")
check("C20", "other",
      "Bounded exploration under symx of every single ill-typing edit of well-typed multi-engine prefixes through every "
      "preferred-engine option; slice start/stop/step are unbounded symbolic integers and z3 decides that exactly the ill-formed "
      "regions raise ValueError/TypeError; rejection class, no return value and unchanged fingerprints are path assertions.",
      "bounded symbolic execution (symx+z3) of the real factory calls with symbolic slice arguments", "3/C20")
check("C15", "other",
      "Bounded symbolic verification: transfer/materialize chains across three engines are built by the real API under symx; z3 "
      "decides content equality of the returned tree with direct evaluation for all leaf contents within the slot bound; engine "
      "of the result, Materialization node counts, identity and preservation of locked nodes under every later factory call are "
      "path assertions.", BSV, "3/C15")
check("C03", "other",
      "Bounded symbolic verification: apply()/backtrack_unary()/commute()/Transfer.reapply run under symx for every final "
      "operation x all preferred-engine option combinations over source->transfer->downstream trees; z3 decides content equality "
      "of moved trees with direct evaluation for all leaf contents within the slot bound; columns, absence of spurious "
      "ColumnError/EngineError and the transfer/require contracts are path assertions.", BSV, "3/C03")
check("C07", "other",
      "Bounded symbolic execution of Processor.process with hooks that evaluate for real (real iteration engine; SQL through "
      "the SMT semantics of the real compiled statements on a symbolic database); z3 decides that executing the processed tree "
      "yields the rows of direct evaluation for all leaf contents within the bound; input-tree snapshot, hook-source "
      "evaluability and trivial-relation short-cuts are path assertions.", BSV + " and sqlmodel (symbolic database)", "3/C07")
check("C10", "other",
      "Bounded exhaustive exploration under symx of every history (up to k actions) of execute / Processor.process / "
      "attach_payload over six families of trees sharing a materialization node, with symbolic rows; write-once payload identity "
      "and at-most-once evaluation counters are path assertions, cached-row equality is decided by z3.",
      BSV + " over bounded action histories", "3/C10")
check("C09", "other",
      "Bounded exhaustive exploration under symx of every history (<=3 actions over factory calls, compile, execute, process, "
      "diagnostics) with symbolic rows: deep fingerprints of all earlier relations, hashability, rebuild equality and compile "
      "determinism are path assertions; equality of repeated executions is decided by z3.",
      BSV + " over bounded action histories", "3/C09")
