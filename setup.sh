#!/bin/sh
# Build the overlay environment for the checks (offline; idempotent).
set -e
cd "$(dirname "$0")"
if [ ! -x .venv/bin/python ] || ! .venv/bin/python -c "import z3, sqlalchemy, lsst.utils" 2>/dev/null; then
  rm -rf .venv
  /venv/bin/python -m venv .venv
  SP=$(.venv/bin/python -c "import sysconfig; print(sysconfig.get_paths()['purelib'])")
  echo "import site; site.addsitedir('/venv/lib/python3.12/site-packages')" > "$SP/_venv_overlay.pth"
  PIP_NO_INDEX=1 .venv/bin/pip install -q --no-index --find-links /opt/veriftools/wheels z3-solver cvc5 jsonschema >/dev/null 2>&1 \
    || PIP_NO_INDEX=1 .venv/bin/pip install -q --no-index --find-links /opt/veriftools/wheels z3-solver jsonschema
fi
.venv/bin/python -c "import z3; print('setup ok: z3', z3.get_version_string())"
