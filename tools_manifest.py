"""Regenerates MANIFEST.json from the table below (kept in one place so it stays valid)."""
import json, os

HERE = os.path.dirname(os.path.abspath(__file__))
NOTE = ("Trusted base: z3 (a systematic sample of its unsat answers - every 50th (quick) / 10th (thorough) per worker process - is re-decided by cvc5 "
        "on the to_smt2() dump, counts in evidence.coverage.counters; C19 also by z3 4.8), the symx executor (coverage query per shape), "
        "the relmodel oracle and, for SQL checks, the sqlmodel semantics validated against SQLite on every run. "
        "Every claim is bounded (slots, depth, parameter boxes) as stated in evidence.bounds.")
CHECKS = {}
NOT_YET = {}


def check(pid, level, text, technique, design, thorough=True):
    CHECKS[pid] = dict(level=level, text=text, technique=technique, design=design, thorough=thorough)


def manifest():
    props = [json.loads(l)["id"] for l in open(os.path.join(HERE, "properties.jsonl"))]
    checks = []
    for pid in props:
        if pid not in CHECKS:
            continue
        c = CHECKS[pid]
        e = {
            "property_id": pid,
            "quick_cmd": f"./run.sh {pid} --tier quick",
            "evidence_file": f"/verif/evidence/{pid}.json",
            "replay_cmd_template": f"./run.sh {pid} --replay {{path}}",
            "engine": "symx+z3",
            "level_claimed": {"category": c["level"], "text": c["text"], "design_ref": c["design"]},
            "level_note": NOTE,
            "technique": c["technique"],
        }
        if c["thorough"]:
            e["thorough_cmd"] = f"./run.sh {pid} --tier thorough"
        checks.append(e)
    na = [{"property_id": p, "reason": NOT_YET.get(p, "check not built yet in this session (see DESIGN.md section 3 for the plan)")}
          for p in props if p not in CHECKS]
    m = {
        "version": 1,
        "setup_cmd": "./setup.sh",
        "hooks": {
            "guard": "LSST_DAF_RELATION_VERIF",
            "enable": "no source hooks: checks import /repo/python directly (PYTHONPATH) and pass harness-side objects "
                      "through public constructors; run.sh exports LSST_DAF_RELATION_VERIF=1 for uniformity",
            "baseline_off_cmd": "cd /repo && /venv/bin/python -m pytest -ra -q -p no:cacheprovider --timeout=900",
            "source_commits": [],
            "add_only": True,
        },
        "engines": [
            {"name": "symx+z3", "path": "/verif/vf", "serves_properties": sorted(CHECKS),
             "kind_free_text": "own symbolic executor running the unmodified library code on int/bool proxies (fork on truth "
                               "tests), z3 decides path feasibility and the verification conditions against a bounded "
                               "relational-algebra oracle (relmodel) and an SMT semantics of the emitted SQLAlchemy AST (sqlmodel)"}
        ],
        "checks": checks,
        "not_applicable": na,
        "notes": "See DESIGN.md.  Exit 0 = held on everything explored, 1 = VIOLATION line, 2 = harness error (machinery wrong, "
                 "never on the unchanged tree).  Known findings: known_findings.json.",
    }
    return m


BSV = "bounded symbolic execution of the real code (symx) + z3 validity queries against the relmodel oracle"

check("C05", "other",
      "Bounded symbolic verification: every path of apply/simplify/then for all template pairs (and curated triples) "
      "in both engines, slice bounds and literals unbounded symbolic integers, targets of up to N symbolic rows; z3 proves "
      "sequence equality of merged tree vs. the two operations in sequence, or returns a counterexample that is replayed "
      "concretely.  Bounded in depth and rows, hence not a proof.", BSV, "3/C05")

if __name__ == "__main__":
    import importlib, sys
    sys.path.insert(0, HERE)
    extra = os.path.join(HERE, "manifest_checks.py")
    if os.path.exists(extra):
        exec(open(extra).read())
    json.dump(manifest(), open(os.path.join(HERE, "MANIFEST.json"), "w"), indent=1)
    print("wrote MANIFEST.json with", len(CHECKS), "checks")
